"""C04 — energies used for acceptance belong to the configuration they describe (DESIGN §6 C04)."""
from __future__ import annotations

import numpy as np

import common
import machine
from props import c03

ID = "C04"
LEAN_MODULES = ["QProps.C04", "QProps.C04h", "QProps.C04a", "QProps.C04d"]
THEOREMS = [
    "MC.ainv_validate",
    "MC.ainv_trial_of",
    "MC.forces_history",
    "MC.forces_history_grand",
    "RDict.inv_step",
    "RDict.forces_never_stale",
    "RDict.stale_without_copy",
    "RDict.stale_with_shared_dictionary",
    "MC.forces_stale_when_aliased",
    "MC.energy_history",
    "MC.energy_history_grand",
    "MC.einv_trial_composite_exchange",
    "MC.evals_trial_of",
    "MC.evals_history",
    "MC.getEnergy_spec",
    "MC.getEnergy_free",
    "MC.stateless_always_fresh",
    "MC.einv_validate",
    "MC.einv_trial",
    "MC.einv_trial_exchange",
    "MC.einv_trial_grand_pos",
    "MC.einv_trial_grand_of",
    "MC.einv_trial_of",
    "MC.einv_trial_cell",
    "MC.einv_trial_ham",
    "MC.einv_trial_pos_any",
    "MC.revertCalc_fresh_aux",
    "MC.revertCalc_fresh_strip",
    "MC.one_eval_per_trial",
    "MC.reject_and_log_free",
    "MC.revertCalc_fresh_pos",
    "MC.peratom_unusable_after_rejected_exchange",
]
RULE = ("scripted histories (as C03) on real Canonical/HamiltonianCanonical/Isobaric/Isotension/GrandCanonical objects with four "
        "ASE-protocol calculators (stateless, result-caching, result-caching with arrays written in place into one buffer as ase's EMT does, "
        "per-atom internal state), a logger-style energy read and a get_forces() read after every "
        "trial, an independent from-scratch evaluation with a fresh calculator after every trial; non-trivial = a history with at "
        "least one rejected trial followed by another trial; distinct = distinct (history, calculator style)")
ASSUMPTIONS = c03.ASSUMPTIONS + ["calculators follow ASE's get_property/check_state/reset/calculate protocol",
                                 "the energy is a function of positions, numbers and cell (what ASE's compare_atoms watches)"]

STYLES = ["caching", "inplace", "stateless", "peratom", "lazy", "inplace"]


def calc_factory(style):
    from ase.calculators.calculator import Calculator, all_changes

    class StyleCalc(Calculator):
        implemented_properties = ["energy", "forces"]

        def __init__(self):
            super().__init__()
            self.nevals = 0
            self.state = None
            self.fbuf = None      # style "inplace": one persistent force buffer, written in place (as ase's EMT does)

        def check_state(self, atoms, tol=1e-15):
            if style == "stateless":
                return list(all_changes)
            return super().check_state(atoms, tol)

        def calculate(self, atoms=None, properties=None, system_changes=all_changes):
            super().calculate(atoms, properties, system_changes)
            if style == "peratom":
                if self.state is None or "numbers" in system_changes:
                    self.state = np.zeros(len(self.atoms))
                if len(self.state) != len(self.atoms):
                    raise ValueError("stale per-atom state")
            self.nevals += 1
            p = self.atoms.positions
            if style == "lazy":
                # energy always; forces only when asked for (`properties`), written in place into one buffer and added to
                # the CURRENT results dictionary (no system change -> no reset): what ASE's protocol allows a calculator
                # with expensive forces to do
                if system_changes:
                    self.results["energy"] = float((p**2).sum() + self.atoms.cell.array.trace())
                else:
                    self.nevals -= 1          # completing the cached results is not a new evaluation of the configuration
                if "forces" in (properties or []):
                    if self.fbuf is None or len(self.fbuf) != len(p):
                        self.fbuf = np.empty((len(p), 3))
                    self.fbuf[:] = -2 * p
                    self.results["forces"] = self.fbuf
            elif style == "inplace":
                if self.fbuf is None or len(self.fbuf) != len(p):
                    self.fbuf = np.empty((len(p), 3))
                self.fbuf[:] = -2 * p
                self.results["energy"] = float((p**2).sum() + self.atoms.cell.array.trace())
                self.results["forces"] = self.fbuf
            else:
                self.results = {"energy": float((p**2).sum() + self.atoms.cell.array.trace()), "forces": -2 * p}

    return StyleCalc


def force_sum(f):
    """the wire checksum of a force array (`MC.forceSum`)"""
    return machine._int(sum((i + 1) * (v[0] + 2 * v[1] + 3 * v[2]) for i, v in enumerate(f)))


def fresh_forces(atoms):
    a = atoms.copy()
    a.calc = calc_factory("caching")()
    return a.get_forces()


def fresh_energy(atoms):
    a = atoms.copy()
    a.calc = calc_factory("caching")()
    return a.get_potential_energy()


class EnergyHistories(common.Suite):
    name = "energy-histories"

    def cases(self, rng, tier):
        n = 900 if tier == "quick" else 15000
        enss = ["canonical", "isobaric", "grand", "grand", "hamiltonian"]
        for i in range(n):
            case = machine.gen_case(rng, enss[i % len(enss)], tier)
            case["style"] = STYLES[(i // len(enss)) % len(STYLES)]
            case["warm"] = rng.random() < 0.3
            if case["warm"] and case["trials"]:
                case["trials"][0]["verdict"] = rng.random() < 0.3  # mostly: the first completed trial is rejected
            yield case

    def real(self, case):
        def warm(sim):
            # what `from_dict` on a restart file does: the reference energy is known, the calculator is fresh
            if hasattr(sim.mc.context, "last_potential_energy"):
                sim.mc.context.last_potential_energy = fresh_energy(sim.atoms)

        sim = machine.Sim(case, calc_factory(case["style"]), pre_validate=warm if case.get("warm") else None)
        out = {"lines": [], "outcomes": [], "checks": []}
        ev0 = sim.calc.nevals - (1 if case.get("warm") else 0) * 0
        for k, tr in enumerate(case["trials"]):
            ev_before = sim.calc.nevals
            try:
                o = sim.run_trial(tr)
                reported = sim.atoms.get_potential_energy()  # what the logger reads after the step
                n_probe = sim.calc.nevals
                forces = sim.atoms.get_forces()               # … and any other cached result
                raw = sim.atoms.get_forces(apply_constraint=False)
                if case["style"] == "stateless":
                    sim.calc.nevals = n_probe                 # our own probe, not the simulation's evaluation
            except Exception as ex:  # noqa: BLE001
                import traceback

                out["exception"] = type(ex).__name__
                out["message"] = str(ex)[:300]
                out["exception_at"] = k
                out["trace"] = traceback.format_exc()[-900:]
                break
            c = sim.mc.context
            le = c.last_potential_energy
            out["outcomes"].append(o)
            out["lines"].append(sim.snapshot(o) + f" e={machine._int(reported)} le={machine._int(le)} "
                                f"ev={sim.calc.nevals - ev0 + 1} br=0 fk={force_sum(raw)}")
            out["checks"].append({
                "reported": float(reported), "reference": float(le), "fresh": float(fresh_energy(sim.atoms)),
                "last_positions_ok": bool(np.array_equal(c.last_positions, sim.atoms.positions)),
                "last_cell_ok": (not hasattr(c, "last_cell")) or bool(np.array_equal(np.asarray(c.last_cell), sim.atoms.cell.array)),
                "devals": sim.calc.nevals - ev_before,
                "forces_dev": float(np.abs(forces - fresh_forces(sim.atoms)).max()) if len(sim.atoms) else 0.0,
                "cached_results_energy": sim.calc.results.get("energy"),
                "calc_atoms_match": sim.calc.atoms is not None and len(sim.calc.atoms) == len(sim.atoms)
                and bool(np.array_equal(sim.calc.atoms.positions, sim.atoms.positions)),
            })
        return out

    def model_lines(self, case):
        line = machine.model_line(case)
        return ["mc " + case["style"] + " 1 " + line[len("mm "):]]   # style "inplace": caching + aliased result arrays

    def model_obs(self, case, outs):
        return {"lines": outs[0].split(" | ")}

    def compare(self, case, real, model):
        rl, ml = real.get("lines", []), model["lines"]
        for k, (r, m) in enumerate(zip(rl, ml)):
            if r != m:
                return [f"trial {k}: real  {r}", f"trial {k}: model {m}"]
        if "exception" in real:
            k = real["exception_at"]
            if k < len(ml) and " br=1" in ml[k]:
                return []  # the model predicts the unusable calculator at this very trial
            return [f"real code raised {real['exception']} in trial {k}: {real['message']}; model: {ml[k:k + 1]}"]
        if len(rl) != len(ml):
            return [f"{len(rl)} real trials vs {len(ml)} model trials"]
        return []

    def oracle(self, case, obs):
        out = []
        style = case["style"]
        if "exception" in obs and "exception_at" not in obs:
            # raised before the first trial (building the simulation): nothing of the per-trial observation exists
            return [(f"exception:{case['ens']}:setup:{obs['exception']}", obs.get("message", "") + obs.get("trace", "")[-500:])]
        if "exception" in obs:
            k = obs["exception_at"]
            ts = c03.trial_sig(case, k)
            if "stale per-atom state" in obs["message"]:
                out.append((f"calc:per-atom-state-unusable:{case['ens']}", f"trial {k}: the calculator raised on its next evaluation: {obs['message']}"))
            else:
                out.append((f"exception:{ts}:{obs['exception']}", f"trial {k}: " + obs["message"] + obs.get("trace", "")[-500:]))
        for k, ch in enumerate(obs["checks"]):
            ts = c03.trial_sig(case, k)
            o = obs["outcomes"][k]
            what = {"T": "accepted", "F": "rejected", "N": "failed"}[o]
            if ch["reported"] != ch["fresh"]:
                out.append((f"energy:reported-stale:{ts}:{what}:{style}", f"trial {k}: reports {ch['reported']}, from scratch {ch['fresh']}"))
            if ch["reference"] != ch["fresh"]:
                out.append((f"energy:reference-stale:{ts}:{what}:{style}", f"trial {k}: reference {ch['reference']}, from scratch {ch['fresh']}"))
            if ch["forces_dev"] != 0.0:
                out.append((f"results:forces-of-another-configuration:{ts}:{what}:{style}",
                            f"trial {k}: atoms.get_forces() differs from a from-scratch evaluation by {ch['forces_dev']}"))
            if not ch["last_positions_ok"] or not ch["last_cell_ok"]:
                out.append((f"energy:remembered-geometry:{ts}:{what}", f"trial {k}: remembered positions/cell differ from the current ones"))
            if style in ("caching", "inplace") and case["ens"] != "hamiltonian":
                limit = 0 if o == "N" else 1
                if ch["devals"] > limit:
                    out.append((f"energy:extra-evaluation:{ts}:{what}", f"trial {k}: {ch['devals']} evaluations (trial + logger read)"))
        return out

    def known_scope(self, case):
        return c03.defect_scope(case)

    def classify(self, case, obs):
        oc = obs.get("outcomes", [])
        for k in range(len(oc) - 1):
            if oc[k] == "F":
                return f"{case['ens']}:{case['style']}"
        return None


class EnergyRunBoundaries(EnergyHistories):
    """histories that span several run() calls with the user editing the atoms (positions, cell) in between: the next
    run() starts with validate_simulation(), after which the reference energy, the remembered positions and the cached
    results must be those of the atoms AS THE USER LEFT THEM — and stay right after the first trials of the new run
    (mostly rejected). Model: `MM.userEdit` + `MC.avalidate` (`mc … !run` events)."""

    name = "energy-run-boundaries"

    def cases(self, rng, tier):
        k = 0
        for case in c03.RunBoundaries().cases(rng, tier):
            if case["ens"] == "grand" and k % 2:
                continue
            case["style"] = STYLES[k % len(STYLES)]
            case["warm"] = False
            k += 1
            yield case

    def real(self, case):
        sim = machine.Sim(case, calc_factory(case["style"]))
        out = {"lines": [], "outcomes": [], "checks": [], "events": []}
        ev0 = sim.calc.nevals
        for k, tr in enumerate(case["trials"]):
            ev = case["runs"].get(str(k))
            try:
                if ev is not None:
                    n = len(sim.atoms)
                    shift = np.array([ev["shift"][i % len(ev["shift"])] for i in range(n)], float).reshape(n, 3)
                    new = sim.atoms.get_positions() + shift
                    sim.atoms.positions = new
                    if ev["cell"] is not None:
                        sim.atoms.set_cell(np.diag(np.array(ev["cell"], float)), scale_atoms=False)
                    machine.start_run(sim.mc)
                    c = sim.mc.context
                    n_probe = sim.calc.nevals
                    rep = sim.atoms.get_potential_energy()
                    raw = sim.atoms.get_forces(apply_constraint=False)
                    if case["style"] == "stateless":
                        sim.calc.nevals = n_probe             # our own probes, not the simulation's evaluations
                    out["events"].append((len(out["lines"]), [[machine._int(x) for x in p] for p in new], ev["cell"]))
                    out["lines"].append("U" + sim.snapshot("T")[1:] + f" e={machine._int(rep)} le={machine._int(c.last_potential_energy)} "
                                        f"ev={sim.calc.nevals - ev0 + 1} br=0 fk={force_sum(raw)}")
                    out["checks"].append({"event": True, "reported": float(rep), "reference": float(c.last_potential_energy),
                                          "fresh": float(fresh_energy(sim.atoms)),
                                          "last_positions_ok": bool(np.array_equal(c.last_positions, sim.atoms.positions)),
                                          "last_cell_ok": (not hasattr(c, "last_cell")) or bool(np.array_equal(np.asarray(c.last_cell), sim.atoms.cell.array)),
                                          "devals": 0, "forces_dev": 0.0})
                    out["outcomes"].append("U")
                ev_before = sim.calc.nevals
                o = sim.run_trial(tr)
                reported = sim.atoms.get_potential_energy()
                n_probe = sim.calc.nevals
                forces = sim.atoms.get_forces()
                raw = sim.atoms.get_forces(apply_constraint=False)
                if case["style"] == "stateless":
                    sim.calc.nevals = n_probe
            except Exception as ex:  # noqa: BLE001
                import traceback

                out["exception"] = type(ex).__name__
                out["message"] = str(ex)[:300]
                out["exception_at"] = k
                out["trace"] = traceback.format_exc()[-900:]
                break
            c = sim.mc.context
            out["outcomes"].append(o)
            out["lines"].append(sim.snapshot(o) + f" e={machine._int(reported)} le={machine._int(c.last_potential_energy)} "
                                f"ev={sim.calc.nevals - ev0 + 1} br=0 fk={force_sum(raw)}")
            out["checks"].append({
                "reported": float(reported), "reference": float(c.last_potential_energy), "fresh": float(fresh_energy(sim.atoms)),
                "last_positions_ok": bool(np.array_equal(c.last_positions, sim.atoms.positions)),
                "last_cell_ok": (not hasattr(c, "last_cell")) or bool(np.array_equal(np.asarray(c.last_cell), sim.atoms.cell.array)),
                "devals": sim.calc.nevals - ev_before,
                "forces_dev": float(np.abs(forces - fresh_forces(sim.atoms)).max()) if len(sim.atoms) else 0.0})
        self._last_events = out["events"]
        return out

    def model_lines(self, case):
        events = getattr(self, "_last_events", [])
        line = machine.model_line(case)
        head = line.split(" R ", 1)[0]
        trials = line.split(" R ", 1)[1].split(" ")
        # events are recorded by the number of lines before them; count only trial lines to find the trial index
        evs = {}
        for off, (i, pos, cell) in enumerate(events):
            evs[i - off] = (pos, cell)
        pieces = []
        for k, t in enumerate(trials):
            if k in evs:
                pos, cell = evs[k]
                ops = [x for p in pos for x in p] + (list(cell) if cell is not None else [])
                pieces.append(",".join(["!run", "1", "1" if cell is not None else "-", machine.s_ints(ops), "-", "-"]))
            pieces.append(t)
        return ["mc " + case["style"] + " 1 " + (head + " R " + " ".join(pieces))[len("mm "):]]

    def oracle(self, case, obs):
        out = []
        style = case["style"]
        if "exception" in obs and "exception_at" not in obs:
            # raised before the first trial (building the simulation): nothing of the per-trial observation exists
            return [(f"exception:{case['ens']}:setup:{obs['exception']}", obs.get("message", "") + obs.get("trace", "")[-500:])]
        if "exception" in obs:
            k = obs["exception_at"]
            ts = c03.trial_sig(case, k)
            if "stale per-atom state" in obs["message"]:
                out.append((f"calc:per-atom-state-unusable:{case['ens']}", obs["message"]))
            else:
                out.append((f"exception:{ts}:{obs['exception']}", f"trial {k}: " + obs["message"] + obs.get("trace", "")[-500:]))
        kt = -1
        for ch, o in zip(obs["checks"], obs["outcomes"]):
            if o != "U":
                kt += 1
            where = "after-run-start" if o == "U" else {"T": "accepted", "F": "rejected", "N": "failed"}[o]
            ts = c03.trial_sig(case, max(kt, 0)) if o != "U" else case["ens"] + ":run-start"
            if ch["reported"] != ch["fresh"]:
                out.append((f"energy:reported-stale:{ts}:{where}:{style}", f"reports {ch['reported']}, from scratch {ch['fresh']}"))
            if ch["reference"] != ch["fresh"]:
                out.append((f"energy:reference-stale:{ts}:{where}:{style}",
                            f"{where} (trial {kt}): reference energy {ch['reference']}, from scratch {ch['fresh']}"))
            if not ch["last_positions_ok"] or not ch["last_cell_ok"]:
                out.append((f"energy:remembered-geometry:{ts}:{where}", "remembered positions/cell differ from the current ones"))
            if ch["forces_dev"] != 0.0:
                out.append((f"results:forces-of-another-configuration:{ts}:{where}:{style}", f"forces off by {ch['forces_dev']}"))
        return out[:6]

    def compare(self, case, real, model):
        rl, ml = real.get("lines", []), model["lines"]
        for k, (r, m) in enumerate(zip(rl, ml)):
            if r != m:
                return [f"event/trial {k}: real  {r}", f"event/trial {k}: model {m}"]
        if "exception" in real:
            k = len(rl)
            if k < len(ml) and " br=1" in ml[k]:
                return []
            return [f"real code raised {real['exception']} at line {k}: {real['message']}; model: {ml[k:k + 1]}"]
        if len(rl) != len(ml):
            return [f"{len(rl)} real lines vs {len(ml)} model lines"]
        return []

    def classify(self, case, obs):
        oc = obs.get("outcomes", [])
        firsts = "".join(oc[i + 1] for i, o in enumerate(oc[:-1]) if o == "U")
        return f"{case['ens']}:{case['style']}:first-of-new-run={''.join(sorted(set(firsts)))}" if firsts else None


class HybridForceHistories(common.Suite):
    """hybrid tables (plain displacement + REAL hybrid-MC move with the real Verlet integrator, which asks the calculator
    for forces in the trial configurations) with calculators that hand out in-place buffers, also lazily (forces only on
    request, added to the current results dictionary): after every trial — in particular after a rejected trajectory —
    energy AND forces read from the atoms are those of the current configuration. Real trajectories are not
    integer-valued: oracle only; the ownership rules are the Lean model `QModel/CalcAlias.lean`."""

    name = "hybrid-force-histories"

    def cases(self, rng, tier):
        n = 60 if tier == "quick" else 1200
        for i in range(n):
            nat = rng.randint(2, 5)
            hist = [[rng.choice(["disp", "hmc", "hmc"]), rng.random() < 0.5] for _ in range(rng.randint(3, 9))]
            hist[0] = ["disp", True]
            yield {"style": ["lazy", "inplace", "lazy", "caching"][i % 4], "n": nat,
                   "pos": [[rng.uniform(0, 6) for _ in range(3)] for _ in range(nat)], "seed": rng.randrange(1, 2**31),
                   "dt": rng.choice([0.5, 2.0, 5.0]), "steps": rng.choice([1, 3, 6]), "hist": hist,
                   "reader": rng.choice(["none", "forces", "energy"]), "veto": rng.random() < 0.25}

    def real(self, case):
        import warnings

        import quansino.mc  # noqa: F401
        from ase import Atoms
        from quansino.integrators.displacement import Verlet
        from quansino.mc.canonical import HamiltonianCanonical
        from quansino.mc.criteria import BaseCriteria
        from quansino.moves.displacement import DisplacementMove, HamiltonianDisplacementMove
        from quansino.operations.displacement import Ball

        class Scripted(BaseCriteria):
            verdict = True

            def evaluate(self, context):
                context.atoms.get_potential_energy()
                return self.verdict

        atoms = Atoms(f"Cu{case['n']}", positions=case["pos"], cell=[9, 9, 9], pbc=True)
        atoms.calc = calc_factory(case["style"])()
        with warnings.catch_warnings():
            warnings.simplefilter("ignore")
            mc = HamiltonianCanonical(atoms, temperature=300.0, seed=case["seed"], max_cycles=1)
            crit = {"disp": Scripted(), "hmc": Scripted()}
            mc.add_move(DisplacementMove(np.arange(case["n"]), Ball(0.3)), criteria=crit["disp"], name="disp")
            hm = HamiltonianDisplacementMove(operation=Verlet(dt=case["dt"], max_steps=case["steps"]))
            if case["veto"]:
                flip = [False]

                def check(*_a, **_k):
                    flip[0] = not flip[0]
                    return flip[0]

                hm.check_move = check
                hm.max_attempts = 2
            mc.add_move(hm, criteria=crit["hmc"], name="hmc")
            mc.validate_simulation()
            out = {"checks": [], "outcomes": []}
            for name, verdict in case["hist"]:
                mc.yield_moves = lambda name=name: iter([name])
                crit[name].verdict = bool(verdict)
                try:
                    for _ in mc.step():
                        pass
                    if case["reader"] == "forces":
                        atoms.get_forces()
                    elif case["reader"] == "energy":
                        atoms.get_potential_energy()
                    e = atoms.get_potential_energy()
                    f = atoms.get_forces()
                except Exception as ex:  # noqa: BLE001
                    out["exception"] = type(ex).__name__
                    out["message"] = str(ex)[:300]
                    break
                (_, acc), = mc.move_history
                out["outcomes"].append({True: "T", False: "F", None: "N"}[acc])
                out["checks"].append({"move": name, "de": float(abs(e - fresh_energy(atoms))),
                                      "df": float(np.abs(f - fresh_forces(atoms)).max()),
                                      "dref": float(abs(mc.context.last_potential_energy - fresh_energy(atoms)))})
        return out

    def oracle(self, case, obs):
        out = []
        if "exception" in obs:
            out.append((f"hybrid:exception:{obs['exception']}", obs["message"]))
        for k, (ch, o) in enumerate(zip(obs["checks"], obs["outcomes"])):
            what = {"T": "accepted", "F": "rejected", "N": "failed"}[o]
            if ch["df"] > 1e-12:
                out.append((f"results:forces-of-another-configuration:hybrid:{ch['move']}:{what}:{case['style']}",
                            f"trial {k} ({ch['move']}, {what}): atoms.get_forces() differs from a from-scratch evaluation by {ch['df']:.3e}"))
            if ch["de"] > 1e-12 or ch["dref"] > 1e-12:
                out.append((f"energy:stale:hybrid:{ch['move']}:{what}:{case['style']}",
                            f"trial {k}: reported energy off by {ch['de']:.3e}, reference off by {ch['dref']:.3e}"))
        return out[:4]

    def classify(self, case, obs):
        oc = "".join(sorted(set(obs.get("outcomes", []))))
        return f"{case['style']}:reader={case['reader']}:{oc}" if "F" in oc else None


class ResultsDictOps(common.Suite):
    """the dictionary-level machine `QModel/ResultsDict.lean` against the real code: random scripts of "the atoms move to
    configuration k", energy / forces requests, `save_state()` and `revert_state()` on a real `Canonical` object with
    calculators that are eager or lazy (forces only on request) and hand out fresh arrays or one recycled buffer. Compared:
    for every forces request whether the returned array is that of the current configuration, and the number of
    evaluations. Theorems: `RDict.inv_step`, `RDict.forces_never_stale`; witnesses `stale_without_copy`,
    `stale_with_shared_dictionary`."""

    name = "results-dict-ops"

    def cases(self, rng, tier):
        n = 150 if tier == "quick" else 4000
        # directed scripts first: the histories of the two repaired defects and close variants
        directed = [["m1", "s", "f", "v", "m2", "r", "f"], ["s", "f", "v", "m1", "e", "r", "v", "m2", "r"], ["m1", "e", "r", "f"], ["e", "s", "m1", "e", "r", "f"], ["s", "f", "m1", "f", "r", "f"],
                    ["s", "f", "m1", "f", "e", "r", "f", "m2", "f", "r", "f"], ["m2", "e", "s", "f", "m3", "f", "e", "r", "f"],
                    ["f", "m1", "e", "s", "e", "m0", "f", "r", "f", "f"], ["s", "m1", "f", "r", "f", "m1", "f", "s", "f", "m2", "e", "r", "f"]]
        for ops in directed:
            for lazy in (True, False):
                for inplace in (True, False):
                    yield {"lazy": lazy, "inplace": inplace, "ops": ops}
        for i in range(n):
            ops = []
            for _ in range(rng.randint(2, 14)):
                r = rng.random()
                ops.append(f"m{rng.randrange(4)}" if r < 0.3 else "e" if r < 0.5 else "f" if r < 0.72 else "s" if r < 0.86 else "r")
                if rng.random() < 0.12:
                    ops.append("v")       # validate_simulation(): a new run starts here
            yield {"lazy": i % 2 == 0, "inplace": (i // 2) % 2 == 0, "ops": ops}

    def real(self, case):
        import warnings

        import quansino.mc  # noqa: F401
        from ase import Atoms
        from ase.calculators.calculator import Calculator, all_changes
        from quansino.mc.canonical import Canonical

        lazy, inplace = case["lazy"], case["inplace"]

        class C(Calculator):
            implemented_properties = ["energy", "forces"]

            def __init__(self):
                super().__init__()
                self.nevals = 0
                self.fbuf = None

            def calculate(self, atoms=None, properties=None, system_changes=all_changes):
                super().calculate(atoms, properties, system_changes)
                p = self.atoms.positions
                if system_changes:
                    self.nevals += 1
                    self.results["energy"] = float((p**2).sum())
                if (not lazy and system_changes) or "forces" in (properties or []):
                    if inplace:
                        if self.fbuf is None:
                            self.fbuf = np.empty(p.shape)
                        self.fbuf[:] = -2 * p
                        self.results["forces"] = self.fbuf
                    else:
                        self.results["forces"] = -2 * p

        table = [np.array([[0.0, 0, 0], [2, 0, 0]]) + k * np.array([[0.5, 0.25, 0], [0, 0.5, 1.0]]) for k in range(4)]
        atoms = Atoms("Cu2", positions=table[0], cell=[9, 9, 9], pbc=True)
        atoms.calc = C()
        out = []
        with warnings.catch_warnings():
            warnings.simplefilter("ignore")
            mc = Canonical(atoms, temperature=300.0, seed=1, max_cycles=1)
            mc.validate_simulation()
            for op in case["ops"]:
                if op[0] == "m":
                    atoms.positions = table[int(op[1:])].copy()
                elif op == "e":
                    atoms.get_potential_energy()
                elif op == "f":
                    f = atoms.get_forces()
                    out.append("1" if np.array_equal(f, -2 * atoms.positions) else "0")
                elif op == "s":
                    mc.save_state()
                elif op == "v":
                    mc.validate_simulation()      # a run boundary
                else:
                    mc.revert_state()
                    out.append("K" if "forces" in atoms.calc.results else "k")
        return {"reads": "".join(out) or "-", "evals": atoms.calc.nevals}

    def model_lines(self, case):
        return [" ".join(["rdict", str(int(case["lazy"])), str(int(case["inplace"])), *case["ops"]])]

    def model_obs(self, case, outs):
        w = outs[0].split()
        if w[0] != "ok":
            return {"bad": outs[0]}
        return {"reads": w[1], "evals": int(w[2][3:])}

    def compare(self, case, real, model):
        if "bad" in model or "exception" in real:
            return [f"real {real.get('exception')} model {model.get('bad')}"]
        d = []
        if real["reads"] != model["reads"]:
            d.append(f"freshness of the forces requests: real {real['reads']} model {model['reads']}")
        if real["evals"] != model["evals"]:
            d.append(f"evaluations: real {real['evals']} model {model['evals']}")
        return d

    def oracle(self, case, obs):
        if "exception" in obs:
            return [(f"rdict:exception:{obs['exception']}", obs["message"])]
        if "0" in obs["reads"]:
            return [(f"results:forces-of-another-configuration:ops:lazy={int(case['lazy'])}:inplace={int(case['inplace'])}",
                     f"forces request #{obs['reads'].index('0')} of the script {' '.join(case['ops'])} returned the forces of another configuration")]
        return []

    def classify(self, case, obs):
        return f"lazy={int(case['lazy'])}:inplace={int(case['inplace'])}:revert={'r' in case['ops']}:reads={min(obs.get('reads', '-').count('1'), 3)}"


class ConstraintEnergyHistories(common.Suite):
    """a constraint that contributes to the potential energy (ASE Hookean): the reported energy and the reference energy
    must both be the FULL potential energy of the current atoms (calculator + constraint), as a from-scratch evaluation
    of a copy gives it. No model (non-integer energies); oracle only."""

    name = "constraint-energy-histories"

    def cases(self, rng, tier):
        n = 100 if tier == "quick" else 2000
        for i in range(n):
            case = machine.gen_case(rng, "canonical", tier)
            case["fixed"] = None
            case["hookean"] = [0, 1, rng.choice([0.5, 2.0, 5.0]), rng.choice([0.5, 1.0, 2.0])]
            for tr in case["trials"]:
                tr["verdict"] = rng.random() < 0.6
            yield case

    def real(self, case):
        from ase.constraints import Hookean

        def add_constraint(sim):
            a1, a2, k, rt = case["hookean"]
            sim.atoms.set_constraint(Hookean(a1=a1, a2=a2, k=k, rt=rt))

        sim = machine.Sim(case, calc_factory("caching"), pre_validate=add_constraint)
        out = {"outcomes": [], "checks": []}
        for k, tr in enumerate(case["trials"]):
            try:
                o = sim.run_trial(tr)
                reported = sim.atoms.get_potential_energy()
            except Exception as ex:  # noqa: BLE001
                out["exception"] = type(ex).__name__
                out["message"] = str(ex)[:300]
                out["exception_at"] = k
                break
            c = sim.mc.context
            out["outcomes"].append(o)
            out["checks"].append({"reported": float(reported), "reference": float(c.last_potential_energy),
                                  "fresh": float(fresh_energy(sim.atoms))})
        return out

    def oracle(self, case, obs):
        out = []
        if "exception" in obs:
            out.append((f"exception:{c03.trial_sig(case, obs['exception_at'])}:{obs['exception']}", obs["message"]))
        for k, ch in enumerate(obs["checks"]):
            what = {"T": "accepted", "F": "rejected", "N": "failed"}[obs["outcomes"][k]]
            if not common.close(ch["reported"], ch["fresh"], 1e-12, 1e-12):
                out.append((f"energy:reported-stale:constraint-energy:{what}", f"trial {k}: reports {ch['reported']}, from scratch {ch['fresh']}"))
            if not common.close(ch["reference"], ch["fresh"], 1e-12, 1e-12):
                out.append((f"energy:reference-stale:constraint-energy:{what}", f"trial {k}: reference {ch['reference']}, from scratch {ch['fresh']}"))
        return out[:4]

    def classify(self, case, obs):
        return "".join(sorted(set(obs.get("outcomes", [])))) or None


class CollectiveEnergyHistories(ConstraintEnergyHistories):
    """a COLLECTIVE constraint (ASE FixCom: moving one atom shifts all the others) with vetoed attempts: after a failed
    trial the remembered positions must still be the current ones, the reference energy that of the current atoms, and
    reading the energy must cost nothing. No model (positions are no longer integer-valued); oracle only."""

    name = "collective-constraint-energy-histories"

    def cases(self, rng, tier):
        yield from c03.CollectiveConstraintHistories().cases(rng, tier)

    def real(self, case):
        sim = machine.Sim(case, calc_factory("caching"))
        out = {"outcomes": [], "checks": []}
        for k, tr in enumerate(case["trials"]):
            ev = sim.calc.nevals
            try:
                o = sim.run_trial(tr)
                reported = sim.atoms.get_potential_energy()
            except Exception as ex:  # noqa: BLE001
                out["exception"] = type(ex).__name__
                out["message"] = str(ex)[:300]
                out["exception_at"] = k
                break
            c = sim.mc.context
            out["outcomes"].append(o)
            out["checks"].append({"reported": float(reported), "reference": float(c.last_potential_energy),
                                  "fresh": float(fresh_energy(sim.atoms)), "devals": sim.calc.nevals - ev,
                                  "last_positions_ok": bool(np.array_equal(c.last_positions, sim.atoms.positions))})
        return out

    def oracle(self, case, obs):
        out = super().oracle(case, obs)
        for k, ch in enumerate(obs["checks"]):
            o = obs["outcomes"][k]
            what = {"T": "accepted", "F": "rejected", "N": "failed"}[o]
            if not ch["last_positions_ok"]:
                out.append((f"energy:remembered-geometry:collective-constraint:{what}",
                            f"trial {k}: remembered positions differ from the current ones"))
            if ch["devals"] > (0 if o == "N" else 1):
                out.append((f"energy:extra-evaluation:collective-constraint:{what}",
                            f"trial {k}: {ch['devals']} evaluations (trial + logger read)"))
        return out[:4]


def suites(tier):
    return [EnergyHistories(), ConstraintEnergyHistories(), CollectiveEnergyHistories(), EnergyRunBoundaries(),
            HybridForceHistories(), ResultsDictOps()]
