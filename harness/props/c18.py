"""C18 — adaptive force-bias step length stays in range and shrinks with uncertainty (DESIGN §6 C18)."""
from __future__ import annotations

import math

import common

from props import fbd

ID = "C18"
LEAN_MODULES = ["QProps.C18", "QProps.C15f"]
THEOREMS = [
    "AFB.zero_force_coefficient",
    "AFB.coefOfColumn_eq_raw",
    # on the driver machine (QModel/FBDriver.lean): which configuration's committee every step's delta comes from
    "FBD.afb_delta_current",
    "FBD.afb_delta_current_after_edit",
    "FBD.afb_delta_current_after_restart",
    "FBD.afb_delta_current_after_attach",
    "FBD.afb_delta_stale_without_validate",
    "FBD.afb_delta_fallback_without_validate",
    "AFB.tanh_half_log_three",
    "AFB.exp_neg_log_two",
    "AFB.tanh_atanhHalf",
    "AFB.update_range",
    "AFB.delta_range",
    "AFB.delta_gt_min",
    "AFB.delta_at_zero",
    "AFB.delta_at_ref",
    "AFB.delta_antitone",
    "AFB.delta_strictAnti",
    "AFB.delta_tendsto_min",
    "AFB.coordwise_get",
    "AFB.coordwise_range",
    "AFB.coordwise_at_zero",
    "AFB.coordwise_at_ref",
    "AFB.coordwise_antitone",
    "AFB.coordwise_tendsto_min",
    "AFB.variationCoef_nonneg",
    "AFB.energy_coef_eq",
    "AFB.forces_coef_eq",
    "AFB.zero_force_coordinate",
    "AFB.update_delta_range",
    "AFB.update_delta_pointwise",
    "AFB.fallback_is_ref",
]
RULE = (
    "real AdaptiveForceBias objects, real update_delta(): (1) 'update-delta-direct' — the variation coefficient is "
    "injected through a scheme registered in afb.schemes, scalar and (n,3)-array, sweeps over "
    "{0, 1e-300 … 1e300} ∪ {ref·k} for reference variances 1e-300 … 1e300, several (min_delta, max_delta) incl. "
    "min = max and min = 0, both update functions; (2) 'update-delta-committee' — calc.results carries prescribed "
    "committee arrays forces_comm (K,N,3), K = 1…12 / energies (K,), K = 1…300, N = 1…5, both schemes, both update functions, "
    "sequences of states incl. atoms.calc = None, results without the key, results with only the other key, "
    "identical members (variance 0), exact ±s pairs (variance = s, incl. s = ref and s² overflowing), zero-force "
    "coordinates; (3) 'step-uses-adapted-delta' — real step() with a committee calculator, displacement bounded by "
    "the adapted delta. Model comparison: variation_coef at 1e-12 relative, delta at 1e-12 of max(|min|,|max|,|delta|). "
    "A case is non-trivial when update_delta() was called at least once; distinct = distinct case dictionaries"
)
ASSUMPTIONS = [
    ("numpy arrays are modelled as lists; np.std/np.mean over the committee axis accumulate member after member, "
     "1-D energies use numpy's pairwise summation (both orders mirrored; over the reals both are the sum)"),
    "math.atanh(0.5) is modelled as 0.5*log(3) (1 ulp apart in double)",
    ("theorems are over the reals: rounding at the anchors and float saturation (1 - tanh(x) == 0.0 for x > ~19, "
     "exp underflow) are not covered; the oracle allows 1e-12 of the delta scale"),
    ("a coordinate on which all committee members predict exactly zero force has variation coefficient 0 (no spread; the "
     "code divides only where the mean magnitude is non-zero), hence delta = max_delta"),
    "ForceBias.step (the force-bias move itself) is C13's model; here only 'update_delta runs first' is checked, on the real code",
]

TOL = 1e-12
FNS = ["tanh", "exp"]
MAGS = [1e-300, 1e-200, 1e-100, 1e-30, 1e-10, 1e-5, 1e-3, 0.01, 0.1, 0.5, 1.0, 2.0, 10.0, 1e3, 1e5, 1e10, 1e30,
        1e100, 1e200, 1e300]


def scale_of(c):
    return max(abs(c["min"]), abs(c["max"]))


def fin(x):
    return isinstance(x, float) and math.isfinite(x)


def flat(x):
    """observation value -> flat list of Python floats"""
    import numpy as np

    return [float(t) for t in np.asarray(x, dtype=float).ravel()]


def range_pairs(rng, n):
    out = [(0.1, 0.3), (0.0, 0.25), (0.05, 0.05), (0.001, 0.1), (0.01, 1.0)]
    while len(out) < n:
        a = round(rng.uniform(0.0, 0.5), rng.randint(1, 6))
        b = a + round(rng.uniform(0.0, 1.0), rng.randint(1, 6))
        out.append((a, b))
    return out[:n]


def property_checks(c, pairs, tag):
    """the property on (variance, delta) pairs observed on the real code; variances finite and >= 0"""
    out = []
    dmin, dmax, ref, fn = c["min"], c["max"], c["ref"], c["fn"]
    sc = scale_of(c)
    tol = TOL * sc
    mid = (dmin + dmax) / 2
    pairs = [(v, d) for v, d in pairs if fin(v) and v >= 0]
    for v, d in pairs:
        if not fin(d):
            out.append((f"{tag}:{fn}:delta-not-finite", f"variance {v!r} gave delta {d!r}"))
            continue
        if d < dmin - tol or d > dmax + tol:
            out.append((f"{tag}:{fn}:out-of-range", f"variance {v!r}: delta {d!r} outside [{dmin!r}, {dmax!r}]"))
        if v == 0.0 and abs(d - dmax) > tol:
            out.append((f"{tag}:{fn}:zero-anchor", f"variance 0: delta {d!r} != max_delta {dmax!r}"))
        if abs(v - ref) <= 1e-14 * ref and abs(d - mid) > tol:
            out.append((f"{tag}:{fn}:ref-anchor", f"variance {v!r} = ref: delta {d!r} != midpoint {mid!r}"))
        if v / ref >= 1e3 and abs(d - dmin) > 1e-9 * (dmax - dmin) + tol:
            out.append((f"{tag}:{fn}:large-variance-limit", f"variance {v!r} = {v / ref:.3g}·ref: delta {d!r} not at min_delta {dmin!r}"))
    good = sorted((p for p in pairs if fin(p[1])), key=lambda p: p[0])
    for (v0, d0), (v1, d1) in zip(good, good[1:]):  # noqa: RUF007
        if v1 > v0 and d1 > d0 + tol:
            out.append((f"{tag}:{fn}:not-monotone", f"variance {v0!r} -> {v1!r} but delta {d0!r} -> {d1!r}"))
            break
    return out


def compare_obs(c, real, model, vc_atol=None):
    """`vc_atol(i)` = absolute slack on state i's variation coefficient (re-association of the committee sums)"""
    diffs = []
    if "exception" in real:
        return [f"real code raised {real['exception']}: {real.get('message')}"]
    if len(real["states"]) != len(model["states"]):
        return [f"{len(real['states'])} real states vs {len(model['states'])} model states"]
    sc = scale_of(c)
    for i, (r, m) in enumerate(zip(real["states"], model["states"])):
        if r["shape"] != m["shape"]:
            diffs.append(f"state {i}: shape real={r['shape']} model={m['shape']}")
            continue
        if len(r["vc"]) != len(m["vc"]) or len(r["delta"]) != len(m["delta"]) or len(r["vc"]) != len(r["delta"]):
            diffs.append(f"state {i}: lengths real={len(r['vc'])},{len(r['delta'])} model={len(m['vc'])},{len(m['delta'])}")
            continue
        av = vc_atol(i) if vc_atol else 0.0
        for j, (a, b) in enumerate(zip(r["vc"], m["vc"])):
            if not common.close(a, b, TOL, av):
                diffs.append(f"state {i} entry {j}: variation_coef real={a!r} model={b!r}")
        for j, (a, b) in enumerate(zip(r["delta"], m["delta"])):
            # |d delta / d v| <= (max - min)·log(3)/ref: slack on v carries over to delta
            dv = av + TOL * abs(r["vc"][j]) if fin(r["vc"][j]) else 0.0
            ad = TOL * sc + min(1.0, 1.1 * dv / c["ref"]) * abs(c["max"] - c["min"])
            if not common.close(a, b, TOL, ad):
                diffs.append(f"state {i} entry {j}: delta real={a!r} model={b!r}")
        if len(diffs) > 6:
            break
    return diffs


def parse_model(outs):
    states = []
    for o in outs:
        w = o.split()
        if len(w) != 4 or w[0] != "ok":
            states.append({"shape": "bad:" + o[:40], "vc": [], "delta": []})
            continue
        states.append({"shape": w[1], "vc": common.lf(w[2]), "delta": common.lf(w[3])})
    return {"states": states}


def make_atoms(natoms):
    from ase import Atoms

    syms = ["Cu", "H", "O", "Cu", "Pt"][:natoms] if natoms <= 5 else ["Cu"] * natoms
    pos = [[2.3 * i, 0.4 * (i % 2), 0.3 * (i % 3)] for i in range(natoms)]
    return Atoms(syms, positions=pos, cell=[30, 30, 30], pbc=False)


def comm_calc_class():
    from ase.calculators.calculator import Calculator, all_changes

    class CommitteeCalc(Calculator):
        """calculator whose `results` carry prescribed committee arrays"""

        implemented_properties = ["energy", "forces"]  # noqa: RUF012

        def __init__(self, payload=None, forces=None):
            super().__init__()
            self.payload = dict(payload or {})
            self.fixed_forces = forces
            self.ncalc = 0

        def calculate(self, atoms=None, properties=None, system_changes=all_changes):
            import numpy as np

            super().calculate(atoms, properties, system_changes)
            self.ncalc += 1
            n = len(self.atoms)
            f = np.zeros((n, 3)) if self.fixed_forces is None else np.array(self.fixed_forces, dtype=float)
            self.results = {"energy": 0.0, "forces": f}
            self.results.update(self.payload)

    return CommitteeCalc


def make_afb(atoms, c, scheme, seed=1):
    import quansino.mc  # noqa: F401  (import order: see C08)
    from quansino.mc.fbmc import AdaptiveForceBias

    # how the object gets its settings is derived from the case values (deterministic, all three ways occur)
    mode = (len(repr(c["ref"])) + len(repr(c["max"])) + len(c["fn"]) + len(scheme)) % 3
    if mode == 0:
        return AdaptiveForceBias(atoms, c["min"], c["max"], 300.0, scheme, c["ref"], c["fn"], seed=seed)
    # the documented tunables may also be (re)assigned on an existing simulation object, e.g. between two runs
    other_fn = "exp" if c["fn"] == "tanh" else "tanh"
    other_scheme = "energy" if scheme == "forces" else "forces"
    afb = AdaptiveForceBias(atoms, c["min"] * 0.5, c["max"] * 2.0 + 1.0, 300.0,
                            other_scheme if mode == 2 else scheme, c["ref"] * 3.7 + 1e-3, other_fn, seed=seed)
    afb.reference_variance = c["ref"]
    afb.min_delta = c["min"]
    afb.max_delta = c["max"]
    afb.update_function = c["fn"]
    afb.scheme = scheme
    return afb


# ------------------------------------------------------------------------------------------ suite 1


class Direct(common.Suite):
    """real update_delta() with the variation coefficient injected through afb.schemes"""

    name = "update-delta-direct"

    def cases(self, rng, tier):
        quick = tier == "quick"
        refs = [1e-300, 1e-100, 1e-10, 0.01, 0.1, 0.25, 1.0, 7.5, 1e10, 1e100, 1e300]
        nrand = 12 if quick else 150
        for _ in range(nrand):
            refs.append(10 ** rng.uniform(-6, 3) if rng.random() < 0.7 else 10 ** rng.uniform(-250, 250))
        pairs = range_pairs(rng, 6 if quick else 14)
        for ref in refs:
            for fn in FNS:
                use = pairs if not quick else [pairs[0], pairs[rng.randrange(1, 3)], pairs[rng.randrange(3, len(pairs))]]
                for dmin, dmax in use:
                    sweep = {0.0, ref}
                    sweep.update(MAGS)
                    for k in (0.25, 0.5, 0.999, 1.001, 2.0, 3.0, 5.0, 10.0, 18.0, 20.0, 37.0, 100.0, 700.0, 1075.0,
                              1e3, 1e6):
                        sweep.add(ref * k)
                    for _ in range(6):
                        sweep.add(ref * 10 ** rng.uniform(-3, 3))
                    sweep = sorted(v for v in sweep if math.isfinite(v))
                    while len(sweep) % 3:
                        sweep.append(sweep[-1])
                    for shape in ("S", "A"):
                        sw = list(sweep)
                        if shape == "A" and rng.random() < 0.5:
                            rng.shuffle(sw)
                        yield {"fn": fn, "min": dmin, "max": dmax, "ref": ref, "shape": shape, "sweep": sw}

    def real(self, c):
        import numpy as np

        atoms = make_atoms(len(c["sweep"]) // 3 if c["shape"] == "A" else 1)
        afb = make_afb(atoms, c, "energy")
        states = []
        if c["shape"] == "S":
            for v in c["sweep"]:
                afb.schemes["direct"] = lambda atoms, v=v: v
                afb.scheme = "direct"
                afb.update_delta()
                states.append({"shape": "S", "vc": flat(afb.variation_coef), "delta": flat(afb.delta)})
        else:
            arr = np.array(c["sweep"], dtype=float).reshape(-1, 3)
            afb.schemes["direct"] = lambda atoms: arr
            afb.scheme = "direct"
            afb.update_delta()
            ok = np.shape(afb.delta) == arr.shape
            states.append({"shape": "A" if ok else f"shape{np.shape(afb.delta)}", "vc": flat(afb.variation_coef),
                           "delta": flat(afb.delta)})
        return {"states": states}

    def model_lines(self, c):
        f = common.fbits
        head = f"c18direct {c['fn']} {f(c['min'])} {f(c['max'])} {f(c['ref'])}"
        if c["shape"] == "S":
            return [f"{head} S {f(v)}" for v in c["sweep"]]
        return [f"{head} A {common.fl(c['sweep'])}"]

    def model_obs(self, c, outs):
        return parse_model(outs)

    def compare(self, c, real, model):
        return compare_obs(c, real, model)

    def oracle(self, c, obs):
        if "exception" in obs:
            return [("direct:exception:" + obs["exception"], obs["message"])]
        pairs = []
        out = []
        for s in obs["states"]:
            if s["shape"] not in ("S", "A"):
                out.append(("direct:delta-shape", f"delta has {s['shape']}"))
            pairs.extend(zip(s["vc"], s["delta"]))
        if sorted(p[0] for p in pairs) != sorted(c["sweep"]):
            out.append(("direct:variation-coef-not-stored", "variation_coef differs from what the scheme returned"))
        return out + property_checks(c, pairs, "direct")

    def classify(self, c, obs):
        r = c["ref"]
        b = "tiny" if r < 1e-50 else "small" if r < 1e-2 else "unit" if r <= 10 else "large" if r < 1e50 else "huge"
        deg = "min=max" if c["min"] == c["max"] else "min=0" if c["min"] == 0 else "min<max"
        return f"{c['fn']}:{c['shape']}:ref-{b}:{deg}"


# ------------------------------------------------------------------------------------------ suite 2


def gen_forces_state(rng, natoms, ref):
    """K rows of 3N coordinates with a prescribed mix of per-coordinate spreads; returns (rows, tags)"""
    k = rng.choice([1, 2, 2, 3, 4, 5, 8, 12])
    n3 = 3 * natoms
    tags = set()
    fscale = rng.choice([1e-3, 1.0, 1.0, 50.0, 1e6])
    cols = []
    zero_at = rng.randrange(n3) if rng.random() < 0.15 else -1
    for j in range(n3):
        mode = "zero" if j == zero_at else rng.choice(["same", "pair", "noise", "noise", "noise", "sign", "pairref"])
        base = fscale * rng.choice([-1, 1]) * rng.uniform(0.2, 2.0)
        if mode == "same" or k == 1:
            col = [base] * k  # variance exactly 0
            tags.add("var0")
        elif mode == "zero":
            col = [0.0] * k  # 0/0
            tags.add("zero-force")
        elif mode in ("pair", "pairref") and k == 2:
            # exact: (1+s, 1-s)·2^e, s dyadic -> std/mean|F| = s exactly
            s = ref if (mode == "pairref" and 0 < ref <= 1 and (ref * 2 ** 20).is_integer()) else rng.choice(
                [0.5, 0.25, 0.125, 0.75, 2 ** -10, 2 ** -20])
            sc = 2.0 ** rng.randint(-8, 8)
            col = [(1 + s) * sc, (1 - s) * sc]
            tags.add("pair-exact" + ("-ref" if s == ref else ""))
        elif mode == "sign":
            col = [base * rng.choice([-1, 1]) * rng.uniform(0.5, 1.5) for _ in range(k)]  # sign changes: v up to sqrt(K)
            tags.add("sign-mix")
        else:
            cv = rng.choice([0.01, 0.1, 0.5, 1.0, 3.0])
            col = [base * (1 + cv * rng.gauss(0, 1)) for _ in range(k)]
            tags.add("noise")
        cols.append(col)
    rows = [[cols[j][m] for j in range(n3)] for m in range(k)]
    return rows, tags


def gen_energy_state(rng, ref):
    tags = set()
    mode = rng.choice(["same", "pair", "pair", "pairref", "noise", "noise", "single"])
    if mode == "single":
        es = [rng.uniform(-100, 100)]
        tags.add("var0")
    elif mode == "same":
        es = [rng.uniform(-100, 100)] * rng.choice([2, 3, 8, 9])
        tags.add("var0")
    elif mode in ("pair", "pairref"):
        s = ref if mode == "pairref" else rng.choice(MAGS + [ref * 2, ref * 0.5, ref * 40])
        es = [s, -s]  # mean 0, std = sqrt(s²) — exact unless s² under/overflows
        tags.add("pair-exact" + ("-ref" if mode == "pairref" else "") + ("-overflow" if s > 1e154 else "")
                 + ("-underflow" if s < 1e-154 else ""))
    else:
        k = rng.choice([2, 3, 4, 7, 8, 9, 12, 16, 31, 129, 200, 300])
        s = 10 ** rng.uniform(-6, 4)
        e0 = s * rng.uniform(-50, 50)
        es = [e0 + s * rng.gauss(0, 1) for _ in range(k)]
        tags.add("noise" + ("-pairwise-split" if k > 128 else "-pairwise" if k >= 8 else ""))
    return es, tags


class Committee(common.Suite):
    """real update_delta() through the real getters, calc.results carrying prescribed committee arrays"""

    name = "update-delta-committee"

    def cases(self, rng, tier):
        n = 800 if tier == "quick" else 12000
        for i in range(n):
            scheme = "forces" if i % 2 == 0 else "energy"
            fn = FNS[(i // 2) % 2]
            dmin, dmax = range_pairs(rng, 12)[rng.randrange(12)]
            ref = rng.choice([0.1, 0.1, 0.25, 0.5, 2 ** -4, 1.0, 0.03, 3.0, 1e-3, 1e-8, 1e-30, 1e-200, 1e5, 1e150,
                              10 ** rng.uniform(-4, 2)])
            natoms = rng.randint(1, 5)
            states = []
            for _ in range(rng.randint(2, 7)):
                r = rng.random()
                if r < 0.12:
                    states.append({"calc": "none"})
                elif r < 0.22:
                    states.append({"calc": "results", "kind": rng.choice(["custom", "single"]), "forces_comm": None,
                                   "energies": None})
                else:
                    st = {"calc": "results", "kind": rng.choice(["custom", "custom", "single"]), "forces_comm": None,
                          "energies": None, "tags": []}
                    tags = set()
                    other_only = rng.random() < 0.1
                    want_f = (scheme == "forces") != other_only
                    both = rng.random() < 0.3
                    if want_f or both:
                        st["forces_comm"], t = gen_forces_state(rng, natoms, ref)
                        tags |= t if scheme == "forces" else set()
                        if rng.random() < 0.15:
                            # a committee that hands out single-precision forces (values made exactly representable)
                            import numpy as _np

                            f32 = [[float(_np.float32(x)) for x in row] for row in st["forces_comm"]]
                            if all(math.isfinite(x) for row in f32 for x in row):
                                st["forces_comm"], st["f32"] = f32, True
                    if (not want_f) or both:
                        st["energies"], t = gen_energy_state(rng, ref)
                        tags |= t if scheme == "energy" else set()
                    st["tags"] = sorted(tags)
                    states.append(st)
            yield {"scheme": scheme, "fn": fn, "min": dmin, "max": dmax, "ref": ref, "natoms": natoms,
                   "states": states}

    @staticmethod
    def has_data(c, st):
        key = "forces_comm" if c["scheme"] == "forces" else "energies"
        return st["calc"] == "results" and st.get(key) is not None

    def real(self, c):
        import numpy as np
        from ase.calculators.singlepoint import SinglePointCalculator

        n = c["natoms"]
        atoms = make_atoms(n)
        afb = make_afb(atoms, c, c["scheme"])
        Calc = comm_calc_class()
        states = []
        for st in c["states"]:
            if st["calc"] == "none":
                atoms.calc = None
            else:
                calc = Calc() if st["kind"] == "custom" else SinglePointCalculator(atoms, energy=0.0,
                                                                                  forces=np.zeros((n, 3)))
                if st["forces_comm"] is not None:
                    calc.results["forces_comm"] = np.array(st["forces_comm"], dtype=np.float32 if st.get("f32") else float).reshape(-1, n, 3)
                if st["energies"] is not None:
                    calc.results["energies"] = np.array(st["energies"], dtype=float)
                atoms.calc = calc
            held = None if atoms.calc is None else {k: np.array(v, copy=True) for k, v in atoms.calc.results.items()
                                                     if k in ("forces_comm", "energies")}
            afb.update_delta()
            afb.update_delta()      # reading the calculator's results is repeatable: they are the calculator's, not scratch space
            if held is not None:
                for k, v in held.items():
                    if not np.array_equal(np.asarray(atoms.calc.results.get(k)), v):
                        raise AssertionError(f"calculator results modified: {k}")
            sh = np.shape(afb.delta)
            want = (n, 3) if c["scheme"] == "forces" else ()
            ok = sh == want and np.shape(afb.variation_coef) == want
            states.append({"shape": ("A" if want else "S") if ok else f"shape{sh}/{np.shape(afb.variation_coef)}",
                           "vc": flat(afb.variation_coef), "delta": flat(afb.delta)})
        return {"states": states}

    def model_lines(self, c):
        f = common.fbits
        head = f"c18run {c['scheme']} {c['fn']} {f(c['min'])} {f(c['max'])} {f(c['ref'])} {c['natoms']}"
        lines = []
        for st in c["states"]:
            if st["calc"] == "none":
                lines.append(head + " nocalc")
                continue
            fc = st["forces_comm"]
            ftok = "fnone" if fc is None else " ".join(["f", str(len(fc)), *[common.fl(r) for r in fc]])
            etok = "enone" if st["energies"] is None else "e " + common.fl(st["energies"])
            lines.append(f"{head} calc {ftok} {etok}")
        return lines

    def model_obs(self, c, outs):
        return parse_model(outs)

    def compare(self, c, real, model):
        def atol(i):
            st = c["states"][i]
            if not self.has_data(c, st):
                return 0.0
            if c["scheme"] == "energy":
                return 1e-13 * max(abs(e) for e in st["energies"]) / c["natoms"]
            return 1e-13 * len(st["forces_comm"])  # |F_k| / mean|F| <= K

        return compare_obs(c, real, model, atol)

    def oracle(self, c, obs):
        if "exception" in obs:
            return [("committee:exception:" + obs["exception"], obs["message"])]
        out = []
        sch, fn = c["scheme"], c["fn"]
        tol = TOL * scale_of(c)
        mid = (c["min"] + c["max"]) / 2
        pairs = []
        n3 = 3 * c["natoms"]
        for st, s in zip(c["states"], obs["states"]):
            if s["shape"] not in ("S", "A"):
                out.append((f"committee:{sch}:shape", f"delta/variation_coef have {s['shape']}"))
                continue
            if not self.has_data(c, st):
                why = "no-calc" if st["calc"] == "none" else "no-key"
                if any(v != c["ref"] for v in s["vc"]) or len(s["vc"]) != (n3 if sch == "forces" else 1):
                    out.append((f"fallback:{sch}:{why}:not-reference-variance", f"variation_coef {s['vc'][:4]} != ref {c['ref']!r}"))
                if any((not fin(d)) or abs(d - mid) > tol for d in s["delta"]):
                    out.append((f"fallback:{sch}:{fn}:{why}:not-midpoint", f"delta {s['delta'][:4]} != midpoint {mid!r}"))
                continue
            zero_cols = set()
            if sch == "forces":
                fc = st["forces_comm"]
                zero_cols = {j for j in range(n3) if all(row[j] == 0.0 for row in fc)}
            for j, (v, d) in enumerate(zip(s["vc"], s["delta"])):
                if j in zero_cols:
                    # every member gives exactly zero force here: no spread at all — variance 0, delta = max_delta (not 0/0)
                    if not (v == 0.0 and fin(d) and abs(d - c["max"]) <= tol):
                        out.append((f"committee:{sch}:{fn}:zero-force-coordinate",
                                    f"entry {j}: all members give zero force, variation_coef {v!r}, delta {d!r} (max_delta {c['max']!r})"))
                    continue
                if math.isnan(v) or v < 0:
                    out.append((f"committee:{sch}:coef-nan-or-negative", f"entry {j}: variation_coef {v!r}"))
                elif math.isinf(v):
                    if not (fin(d) and abs(d - c["min"]) <= tol):
                        out.append((f"committee:{sch}:{fn}:overflowed-variance", f"variation_coef inf gave delta {d!r}"))
                else:
                    pairs.append((v, d))
        return out + property_checks(c, pairs, f"committee:{sch}")

    PRIORITY = ("zero-force", "pair-exact-ref", "overflow", "underflow", "pair-exact", "var0", "sign-mix",
                "noise-pairwise", "noise", "otherkey", "nokey", "nocalc")

    def classify(self, c, obs):
        kinds = set()
        for st in c["states"]:
            if st["calc"] == "none":
                kinds.add("nocalc")
            elif not self.has_data(c, st):
                kinds.add("nokey" if (st["forces_comm"] is None and st["energies"] is None) else "otherkey")
            else:
                kinds.update(st.get("tags", []))
        for k in kinds:
            STATE_KINDS[f"{c['scheme']}:{k}"] = STATE_KINDS.get(f"{c['scheme']}:{k}", 0) + 1
        top = next((p for p in self.PRIORITY if any(p in k for k in kinds)), "other")
        return f"{c['scheme']}:{c['fn']}:{top}"


STATE_KINDS: dict[str, int] = {}


def extra_coverage(res):
    return {"committee_cases_per_state_kind": dict(sorted(STATE_KINDS.items()))}


# ------------------------------------------------------------------------------------------ suite 3


class StepOrder(common.Suite):
    """step() adapts delta first: the displacement of the force-bias move is bounded by the *adapted* delta"""

    name = "step-uses-adapted-delta"

    def cases(self, rng, tier):
        n = 120 if tier == "quick" else 2500
        for i in range(n):
            scheme = "forces" if i % 2 == 0 else "energy"
            natoms = rng.randint(2, 5)
            dmax = rng.choice([0.1, 0.2, 0.3])
            dmin = dmax * rng.choice([0.001, 0.01, 0.02])
            ref = rng.choice([0.05, 0.1, 0.5])
            nsteps = rng.randint(2, 4)
            plans = []
            for _ in range(nsteps):
                # variance level of the committee data present in calc.results when the step starts
                level = rng.choice(["huge", "huge", "zero", "ref"])
                plans.append(level)
            yield {"scheme": scheme, "fn": FNS[(i // 2) % 2], "min": dmin, "max": dmax, "ref": ref,
                   "natoms": natoms, "seed": rng.randint(1, 2 ** 31), "levels": plans,
                   "forces": [[rng.uniform(-0.2, 0.2) for _ in range(3)] for _ in range(natoms)]}

    @staticmethod
    def payload(c, level):
        import numpy as np

        n = c["natoms"]
        s = {"huge": 60.0, "zero": 0.0, "ref": 1.0}[level]
        if c["scheme"] == "energy":
            x = s * c["ref"] * n  # std([x, -x]) / n = s·ref
            return {"energies": np.array([x, -x])}
        # (1+t, 1-t): std/mean|F| = t for t <= 1; beyond: sign-changing members (t, -t) give v = 1 (its maximum for K = 2)
        t = min(s * c["ref"], 1.0) if level != "huge" else None
        if t is None:
            k = 64  # one member carries all the force: v = sqrt(K-1) ≈ 7.9 >= 15·ref
            fc = np.zeros((k, n, 3))
            fc[0] = 1.0
            return {"forces_comm": fc}
        return {"forces_comm": np.array([np.full((n, 3), 1 + t), np.full((n, 3), 1 - t)])}

    def real(self, c):
        import numpy as np

        atoms = make_atoms(c["natoms"])
        Calc = comm_calc_class()
        calc = Calc(forces=c["forces"])
        atoms.calc = calc
        afb = make_afb(atoms, c, c["scheme"], seed=c["seed"])
        log = []
        inner_gamma = afb.calculate_gamma
        inner_update = afb.update_delta

        def gamma_spy(forces):
            log.append(("gamma", flat(afb.delta)))
            return inner_gamma(forces)

        def update_spy():
            log.append(("update", None))
            return inner_update()

        afb.calculate_gamma = gamma_spy
        afb.update_delta = update_spy
        steps = []
        # step 0: no calculation has happened, calc.results is empty -> fallback
        for k, level in enumerate([None, *c["levels"]]):
            if level is not None:
                pl = self.payload(c, level)
                calc.payload = pl
                calc.results.update(pl)  # what the previous evaluation "returned"
            before = atoms.get_positions().copy()
            del log[:]
            afb.step()
            disp = atoms.get_positions() - before
            delta = np.broadcast_to(np.asarray(afb.delta, dtype=float), disp.shape)
            steps.append({
                "level": level or "no-data",
                "delta": flat(afb.delta),
                "vc": flat(afb.variation_coef),
                "disp": flat(disp),
                "bound": flat(delta),
                "order": [t for t, _ in log],
                "delta_at_gamma": next((d for t, d in log if t == "gamma"), None),
            })
        return {"steps": steps}

    def oracle(self, c, obs):
        if "exception" in obs:
            return [("step:exception:" + obs["exception"], obs["message"])]
        out = []
        sch, fn = c["scheme"], c["fn"]
        tol = TOL * scale_of(c)
        mid = (c["min"] + c["max"]) / 2
        for k, s in enumerate(obs["steps"]):
            lvl = s["level"]
            # the delta left behind by the step is the one adapted to the data present when the step started
            # ("ref" level: the exact value depends on the variance estimator, which the property does not pin;
            #  it is judged through the observed variation_coef by property_checks)
            out.extend(property_checks(c, list(zip(s["vc"], s["delta"])), f"step:{sch}"))
            if lvl == "no-data" and any(abs(d - mid) > tol for d in s["delta"]):
                out.append((f"step:{sch}:{fn}:{lvl}:delta-not-midpoint", f"step {k}: delta {s['delta'][:3]} mid {mid!r}"))
            if lvl == "zero" and any(abs(d - c["max"]) > tol for d in s["delta"]):
                out.append((f"step:{sch}:{fn}:zero:delta-not-max", f"step {k}: delta {s['delta'][:3]}"))
            if lvl == "huge" and any(d > c["min"] + 1e-4 * (c["max"] - c["min"]) for d in s["delta"]):
                out.append((f"step:{sch}:{fn}:huge:delta-not-near-min", f"step {k}: delta {s['delta'][:3]} vc {s['vc'][:3]}"))
            if any(d < c["min"] - tol or d > c["max"] + tol for d in s["delta"]):
                out.append((f"step:{sch}:{fn}:out-of-range", f"step {k}: delta {s['delta'][:3]}"))
            # the displacement of this step is bounded, component by component, by the adapted delta
            worst = max((abs(x) - b * (1 + 1e-9) for x, b in zip(s["disp"], s["bound"])), default=0.0)
            if worst > 1e-12:
                out.append((f"step:{sch}:{fn}:{lvl}:displacement-exceeds-adapted-delta",
                            f"step {k}: |displacement| exceeds the adapted delta by {worst:.3g} (stale delta used?)"))
            if s["delta_at_gamma"] is not None:
                if s["order"][:2] != ["update", "gamma"]:
                    out.append((f"step:{sch}:order", f"step {k}: call order {s['order']}"))
                if s["delta_at_gamma"] != s["delta"]:
                    out.append((f"step:{sch}:{fn}:{lvl}:force-bias-step-saw-other-delta",
                                f"step {k}: delta at calculate_gamma {s['delta_at_gamma'][:3]} vs adapted {s['delta'][:3]}"))
        return out

    def classify(self, c, obs):
        return f"{c['scheme']}:{c['fn']}:no-data+" + "+".join(sorted(set(c["levels"])))


class RunStart(common.Suite):
    """the step length of the FIRST step of a run adapts to the committee data of the configuration the run starts from,
    also when the calculator that is attached has been used before on another configuration (a restart re-using an
    expensive committee calculator, atoms edited between two runs): a simulation whose calculator holds stale results is
    compared, bit for bit, with the same simulation on a brand-new calculator."""

    name = "run-start-committee"

    def cases(self, rng, tier):
        n = 40 if tier == "quick" else 600
        for i in range(n):
            natoms = rng.randint(2, 5)
            dmax = rng.choice([0.1, 0.2, 0.3])
            yield {"scheme": "forces" if i % 2 == 0 else "energy", "fn": FNS[(i // 2) % 2], "min": dmax * 0.01, "max": dmax,
                   "ref": rng.choice([0.05, 0.1, 0.5]), "natoms": natoms, "seed": rng.randint(1, 2 ** 31),
                   "how": ["used-elsewhere", "edited-between-runs", "used-elsewhere"][i % 3], "nsteps": rng.randint(1, 3)}

    @staticmethod
    def calc_class():
        import numpy as np
        from ase.calculators.calculator import Calculator, all_changes

        class ConfComm(Calculator):
            """harmonic well with a committee whose spread depends on the configuration"""

            implemented_properties = ["energy", "forces"]  # noqa: RUF012

            def calculate(self, atoms=None, properties=None, system_changes=all_changes):
                super().calculate(atoms, properties, system_changes)
                d = self.atoms.get_positions() - 1.0
                f = -0.1 * d
                spread = 0.4 * np.abs(np.sin(1.7 * self.atoms.get_positions()))
                self.results = {"energy": 0.05 * float((d * d).sum()), "forces": f,
                                "forces_comm": np.stack([f * (1 + (k - 1) * spread) for k in range(3)]),
                                "energies": np.array([1.0, 1.0 + 0.3 * float(np.abs(np.sin(d)).sum()), 1.0 - 0.1 * float(np.abs(np.cos(d)).sum())])}

        return ConfComm

    def one(self, c, stale):
        import numpy as np

        atoms = make_atoms(c["natoms"])
        C = self.calc_class()
        calc = C()
        if stale and c["how"] == "used-elsewhere":
            other = atoms.copy()
            other.positions += 0.37
            other.calc = calc
            other.get_forces()
        atoms.calc = calc
        afb = make_afb(atoms, c, c["scheme"], seed=c["seed"])
        if c["how"] == "edited-between-runs":
            afb.run(1)
            if stale:
                atoms.positions += 0.21                # the calculator still holds the results of the old positions
            else:
                atoms.positions += 0.21
                atoms.calc = C()
        afb.run(c["nsteps"])
        return {"delta": flat(afb.delta), "pos": [common.fbits(float(x)) for x in atoms.get_positions().ravel()]}

    def real(self, c):
        return {"stale": self.one(c, True), "fresh": self.one(c, False)}

    def oracle(self, c, obs):
        if "exception" in obs:
            return [("runstart:exception:" + obs["exception"], obs["message"])]
        out = []
        if obs["stale"]["delta"] != obs["fresh"]["delta"]:
            out.append((f"runstart:{c['scheme']}:{c['how']}:delta-from-another-configuration",
                        f"delta after the run: {obs['stale']['delta'][:3]} with a used calculator, {obs['fresh']['delta'][:3]} with a new one"))
        if obs["stale"]["pos"] != obs["fresh"]["pos"]:
            out.append((f"runstart:{c['scheme']}:{c['how']}:trajectory-differs", "positions after the run differ"))
        return out

    def classify(self, c, obs):
        return f"{c['scheme']}:{c['fn']}:{c['how']}"


def suites(tier):
    return [Direct(), Committee(), StepOrder(), RunStart()]
