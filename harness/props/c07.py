"""C07 — restarting from any saved step continues the same trajectory (DESIGN §6 C07).

Tie = translator (T) for the class specs (`pre` regenerates `lean/QGen/Classes.lean`; the Lean stage re-checks
`specs_wf` and `restart_file_is_to_dict` by kernel evaluation), validated by correspondence: for every
configuration the model's prediction "the restart file can be loaded and gives back the saved state" is
compared with what the real code does.  The oracle is the property itself on the real code: run `n` steps
with a `RestartObserver` writing a real file, keep the file text after every step `k`, then for EVERY `k`:
`read_json` -> `Cls.from_dict(data)` -> attach a fresh calculator -> run `n-k` steps -> compare atoms,
energies, move history, labels, counters and generator state, step by step, with the uninterrupted run.
"""
from __future__ import annotations

import hashlib
import os
import tempfile
import warnings

import common

from props import fbd

ID = "C07"
LEAN_MODULES = ["QProps.C07", "QModel.SerialIO", "QProps.C07m", "QProps.C07t", *fbd.LEAN_MODULES_C07]
THEOREMS = [
    *fbd.THEOREMS_C07,
    "C07.specs_wf",
    "C07.restart_file_is_to_dict",
    "C07.load_save_equiv",
    "C07.equiv_bisim",
    "C07.restart_continues",
    "MM.trial_persist",
    "MM.trial_persist_min",
    "MM.restart_continues_mm",
    "MM.restart_continues_mm_grand",
    "MM.restart_anywhere_mm",
    "MM.restart_anywhere_mm_grand",
    "MM.trial_noPresel",
    "MM.preselection_is_not_stored",
    "C07t.persisted_fields_emitted",
]
RULE = (
    "drivers Canonical, HamiltonianCanonical, Isobaric, Isotension, GrandCanonical, ForceBias, AdaptiveForceBias x "
    "move tables covering every shipped move, operation (incl. masked deformations, composite operations), criteria, "
    "composite displacement/exchange moves, molecular exchange and falsy-valued settings (probability 0.0 with "
    "minimum_count >= 1, seed 0, default_label 0, labels with 0 and negatives, integer temperature) x seeds from VERIF_SEED; n = 12 (quick) / 60 "
    "(thorough) steps, restart at EVERY k in 0..n from the file the RestartObserver wrote; energies bitwise with a "
    "pure numpy calculator, 1e-10 relative with EMT (thorough); a case is non-trivial when the run had at least one "
    "accepted and the table at least one move (or is force-bias); distinct = distinct (driver, table, seed, calculator)"
)
ASSUMPTIONS = [
    "the step function reads the simulation only through what to_dict() serialises plus the calculator "
    "(Factors hypothesis of C07.restart_continues); tested here move by move on the real drivers",
    "a freshly attached calculator is a pure function of the configuration (true for the harness calculator; "
    "EMT reproduces energies to ~1e-14 only, hence the 1e-10 tolerance there)",
    "ASE write_json/read_json are inverse on the values written",
]

_STATE: dict = {}


def specs() -> dict[str, dict]:
    from props import c08

    return c08.specs()


def pre(tier, res):
    from props import c08

    c08.pre(tier, res)


# --------------------------------------------------------------------------- harness calculator


def make_calc(kind: str, committee: bool = False):
    import numpy as np
    from ase.calculators.calculator import Calculator, all_changes

    if kind == "emt":
        from ase.calculators.emt import EMT

        return EMT()

    class PureCalc(Calculator):
        """energy, forces: a fixed smooth function of the scaled positions and the volume, evaluated with a
        fixed order of numpy operations: a fresh instance reproduces every bit"""

        implemented_properties = ["energy", "forces", "stress"]  # noqa: RUF012

        def calculate(self, atoms=None, properties=("energy",), system_changes=all_changes):
            super().calculate(atoms, properties, system_changes)
            a = self.atoms
            cell = np.array(a.cell)
            inv = np.linalg.inv(cell)
            s = a.positions @ inv
            z = a.numbers[:, None] / 29.0
            vol = abs(np.linalg.det(cell))
            e = 0.3 * float(np.sum(z * np.cos(2 * np.pi * s))) + 0.02 * (vol - 50.0) ** 2 / 50.0
            f = (0.3 * 2 * np.pi * z * np.sin(2 * np.pi * s)) @ inv.T
            self.results = {"energy": e, "forces": f, "stress": np.zeros(6)}
            if committee:
                w = np.array([0.9, 1.0, 1.15])
                self.results["forces_comm"] = w[:, None, None] * (f + 0.01)[None]
                self.results["energies"] = w * e

    return PureCalc()


# --------------------------------------------------------------------------- configurations


def base_atoms(kind: str):
    import numpy as np
    from ase import Atoms

    if kind == "mol":  # two CO molecules and two Cu atoms: labels group the molecules
        a = Atoms("COCOCuCu", positions=[[0.5, 0.5, 0.5], [1.6, 0.5, 0.5], [2.5, 2.5, 0.5], [2.5, 3.6, 0.5],
                                         [0.7, 2.9, 2.2], [3.1, 0.9, 2.6]], cell=[4.2, 4.4, 4.6], pbc=True)
    else:
        a = Atoms("Cu4", positions=[[0.3, 0.2, 0.1], [2.0, 1.9, 0.2], [1.9, 0.1, 2.1], [0.2, 2.1, 1.8]],
                  cell=[3.7, 3.8, 3.9], pbc=True)
    a.set_momenta(np.zeros((len(a), 3)))
    return a


TABLES = {
    "Canonical": ["ball", "box2", "sphere+ball", "transl-mol", "rot-mol", "transrot-mol", "compop", "twonames", "nested",
                  "falsy"],
    "HamiltonianCanonical": ["verlet", "verlet+ball"],
    "Isobaric": ["iso", "aniso-mask", "shape-noscale", "cell+disp-composite"],
    "Isotension": ["aniso-mask", "iso"],
    "GrandCanonical": ["exch", "exch-mol", "compexch", "disp+exch-composite", "exch-bias", "falsy"],
    "ForceBias": ["fb", "fb-fixcom"],
    "AdaptiveForceBias": ["afb-forces", "afb-energy"],
}
QUICK = {
    "Canonical": ["ball", "sphere+ball", "rot-mol", "compop", "nested", "falsy"],
    "HamiltonianCanonical": ["verlet"],
    "Isobaric": ["iso", "aniso-mask", "cell+disp-composite"],
    "Isotension": ["aniso-mask"],
    "GrandCanonical": ["exch", "exch-mol", "compexch", "disp+exch-composite", "falsy"],
    "ForceBias": ["fb-fixcom"],
    "AdaptiveForceBias": ["afb-forces", "afb-energy"],
}


def build_sim(case: dict, restart_path: str):
    """the simulation of a case: driver, move table, calculator, restart observer on a real file"""
    import numpy as np
    import quansino.mc  # noqa: F401
    from ase import Atoms
    from ase.constraints import FixCom
    from quansino.integrators.displacement import Verlet
    from quansino.mc.canonical import Canonical, HamiltonianCanonical
    from quansino.mc.criteria import CanonicalCriteria, GrandCanonicalCriteria, IsobaricCriteria, IsotensionCriteria
    from quansino.mc.fbmc import AdaptiveForceBias, ForceBias
    from quansino.mc.gcmc import GrandCanonical
    from quansino.mc.isobaric import Isobaric
    from quansino.mc.isotension import Isotension
    from quansino.moves.cell import CellMove
    from quansino.moves.displacement import DisplacementMove, HamiltonianDisplacementMove
    from quansino.moves.exchange import ExchangeMove
    from quansino.operations.cell import AnisotropicDeformation, IsotropicDeformation, ShapeDeformation
    from quansino.operations.displacement import Ball, Box, Rotation, Sphere, Translation, TranslationRotation

    drv, tab, seed = case["driver"], case["table"], case["seed"]
    mol = tab.endswith("-mol")
    atoms = base_atoms("mol" if mol else "cu")
    atoms.calc = make_calc(case.get("calc", "pure"), committee=drv == "AdaptiveForceBias")
    n = len(atoms)
    labels = np.array([0, 0, 1, 1, 2, 3]) if mol else np.arange(n)
    common_kw = {"seed": seed, "restart_file": restart_path, "logging_interval": 1}
    T = 600.0
    if drv in ("Canonical", "HamiltonianCanonical"):
        cls = Canonical if drv == "Canonical" else HamiltonianCanonical
        sim = cls(atoms, temperature=T, max_cycles=3, **common_kw)
        if tab == "ball":
            sim.add_move(DisplacementMove(labels, Ball(0.3)), name="d")
        elif tab == "box2":
            sim.add_move(DisplacementMove(labels, Box(0.25)) * 2, criteria=CanonicalCriteria(), name="d2")
        elif tab == "sphere+ball":
            sim.add_move(DisplacementMove(labels, Sphere(0.2)) + DisplacementMove(labels, Ball(0.15), apply_constraints=False),
                         criteria=CanonicalCriteria(), name="sb", probability=0.7)
            sim.add_move(DisplacementMove(labels, Ball(0.1)), name="b", interval=2, probability=0.3)
        elif tab == "transl-mol":
            sim.add_move(DisplacementMove(labels, Translation()), name="t")
        elif tab == "rot-mol":
            sim.add_move(DisplacementMove(labels, Rotation()), name="r")
            sim.add_move(DisplacementMove(labels, Ball(0.2)), name="7", minimum_count=1)   # a name made of digits: JSON readers may hand it back as a number
        elif tab == "transrot-mol":
            sim.add_move(DisplacementMove(labels, TranslationRotation()), name="tr")
        elif tab == "compop":
            m = DisplacementMove(labels, Ball(0.1) + Box(0.1) * 2)
            m.max_attempts = 7
            m.default_label = 5
            sim.add_move(m, name="c")
        elif tab == "twonames":
            m = DisplacementMove(labels, Ball(0.2))
            sim.add_move(m, name="x", probability=0.5)
            sim.add_move(m, name="y", probability=0.5)
        elif tab == "nested":
            a, b, c = (DisplacementMove(labels, op) for op in (Ball(0.1), Sphere(0.1), Box(0.1)))
            sim.add_move(a + (b + c), criteria=CanonicalCriteria(), name="n")
        elif tab == "falsy":
            # falsy-valued settings: probability 0.0 with minimum_count 1, labels with 0 and negatives,
            # default_label 0, an integer temperature, apply_constraints False, seed 0 (see `cases`)
            lab = np.array([0, -1, 0, 1])
            m = DisplacementMove(lab, Ball(0.3), apply_constraints=False)
            m.default_label = 0
            sim.add_move(m, name="forced", probability=0.0, minimum_count=1)
            sim.add_move(DisplacementMove(lab, Box(0.2)), name="free", probability=1.0)
            sim.temperature = 700
        elif tab == "verlet":
            sim.add_move(HamiltonianDisplacementMove(operation=Verlet(dt=80.0, max_steps=4)), name="h")
        elif tab == "verlet+ball":
            sim.add_move(HamiltonianDisplacementMove(operation=Verlet(dt=0.7, max_steps=3, apply_constraints=False)), name="h")
            sim.add_move(DisplacementMove(labels, Ball(0.2)), name="b")
        else:
            raise KeyError(tab)
    elif drv in ("Isobaric", "Isotension"):
        extra = {}
        if drv == "Isotension":
            extra["external_stress"] = np.array([[0.02, 0.001, 0.0], [0.001, -0.01, 0.0], [0.0, 0.0, 0.015]])
        cls = Isobaric if drv == "Isobaric" else Isotension
        sim = cls(atoms, temperature=T, pressure=0.01, max_cycles=3, **extra, **common_kw)
        crit = IsobaricCriteria() if drv == "Isobaric" else IsotensionCriteria()
        mask = np.array([[True, False, False], [False, True, False], [False, False, False]])
        if tab == "iso":
            sim.add_move(CellMove(IsotropicDeformation(0.03)), criteria=crit, name="cell", probability=0.5)
            sim.add_move(DisplacementMove(labels, Ball(0.2)), name="d", probability=0.5)
        elif tab == "aniso-mask":
            sim.add_move(CellMove(AnisotropicDeformation(0.03, mask=mask)), criteria=crit, name="cell", probability=0.6)
            sim.add_move(DisplacementMove(labels, Box(0.2)), name="d", probability=0.4)
        elif tab == "shape-noscale":
            sim.add_move(CellMove(ShapeDeformation(0.02), scale_atoms=False), criteria=crit, name="cell")
        elif tab == "cell+disp-composite":
            sim.add_move(CellMove(IsotropicDeformation(0.02)) + DisplacementMove(labels, Ball(0.1)), criteria=crit, name="cd")
        else:
            raise KeyError(tab)
    elif drv == "GrandCanonical":
        ex = Atoms("CO", positions=[[0, 0, 0], [1.1, 0, 0]]) if mol else Atoms("Cu")
        sim = GrandCanonical(atoms, ex, temperature=2000.0, chemical_potential=-1.9 if not mol else -2.7,
                             number_of_exchange_particles=len(set(labels.tolist())), max_cycles=3, **common_kw)
        gcc = GrandCanonicalCriteria()
        if tab == "exch":
            sim.add_move(ExchangeMove(labels, Translation()), criteria=gcc, name="x", probability=0.6)
            sim.add_move(DisplacementMove(labels, Ball(0.2)), name="d", probability=0.4)
        elif tab == "exch-mol":
            sim.add_move(ExchangeMove(labels, TranslationRotation()), criteria=gcc, name="x", probability=0.6)
            sim.add_move(DisplacementMove(labels, Rotation()), name="r", probability=0.4)
        elif tab == "compexch":
            sim.add_move(ExchangeMove(labels, Translation()) * 2, criteria=gcc, name="xx")
            sim.moves["xx"].move.bias_towards_insert = 0.4
        elif tab == "disp+exch-composite":
            sim.add_move(DisplacementMove(labels, Ball(0.2)) + ExchangeMove(labels, Translation()), criteria=gcc, name="dx")
        elif tab == "falsy":
            lab = np.array([0, -1, 0, 1])
            m = ExchangeMove(lab, Translation(), bias_towards_insert=0.5)
            m.default_label = 0
            sim.add_move(m, criteria=gcc, name="x", probability=0.0, minimum_count=2)
            sim.add_move(DisplacementMove(lab, Ball(0.2)), name="d", probability=1.0)
            sim.number_of_exchange_particles = 0
        elif tab == "exch-bias":
            m = ExchangeMove(labels, Translation(), bias_towards_insert=0.7)
            m.default_label = 0
            sim.add_move(m, criteria=gcc, name="x")
        else:
            raise KeyError(tab)
    elif drv == "ForceBias":
        if tab == "fb-fixcom":
            atoms.set_constraint(FixCom())
        sim = ForceBias(atoms, delta=0.08, temperature=T, **common_kw)
        sim.masses_scaling_power = 0.3
        if tab == "fb-fixcom":
            sim.gamma_max_value = 0.4      # a documented attribute, tuned on the instance: it clips gamma from the first step on
    elif drv == "AdaptiveForceBias":
        atoms.set_constraint(FixCom())
        sim = AdaptiveForceBias(atoms, min_delta=0.03, max_delta=0.1, temperature=T, reference_variance=0.2,
                                scheme="forces" if tab == "afb-forces" else "energy",
                                update_function="tanh" if tab == "afb-forces" else "exp", **common_kw)
    else:
        raise KeyError(drv)
    return sim


# --------------------------------------------------------------------------- observation of one step


def dig(b) -> str:
    return hashlib.sha256(b).hexdigest()[:16]


def walk_moves(move, out):
    if hasattr(move, "moves"):
        for m in move.moves:
            walk_moves(m, out)
    elif hasattr(move, "labels"):
        out.append([int(x) for x in move.labels])


def snapshot(sim) -> dict:
    import numpy as np

    a = sim.atoms
    s = {
        "step_count": int(sim.step_count),
        "natoms": len(a),
        "numbers": dig(np.ascontiguousarray(a.numbers).tobytes()),
        "positions": dig(np.ascontiguousarray(a.positions).tobytes()),
        "cell": dig(np.ascontiguousarray(np.array(a.cell)).tobytes()),
        "momenta": dig(np.ascontiguousarray(a.get_momenta()).tobytes()),
        "constraints": repr([c.todict() for c in a.constraints]),
        "rng": dig(repr(common.get_rng(sim).bit_generator.state).encode()),
    }
    ctx = getattr(sim, "context", None)
    if ctx is not None:
        s["energy"] = float(getattr(ctx, "last_potential_energy", float("nan")))
        if hasattr(ctx, "last_kinetic_energy"):
            s["kinetic"] = float(ctx.last_kinetic_energy)
        if hasattr(ctx, "number_of_exchange_particles"):
            s["n_exchange"] = int(ctx.number_of_exchange_particles)
        s["history"] = [[n, None if v is None else bool(v)] for n, v in sim.move_history]
        labels = []
        for name, st in sim.moves.items():
            walk_moves(st.move, labels)
        s["labels"] = labels
        s["table"] = [[n, st.interval, st.probability, st.minimum_count] for n, st in sim.moves.items()]
    else:
        s["energy"] = float(a.calc.results.get("energy", float("nan"))) if a.calc is not None else float("nan")
        s["delta"] = dig(np.ascontiguousarray(np.asarray(sim.delta, dtype=float)).tobytes())
    return s


def make_recorder(sim, path, texts, obs):
    from quansino.io.core import Observer

    class Rec(Observer):
        __slots__ = ()

        def __call__(self):
            k = int(sim.step_count)
            if path is not None:
                with open(path) as f:
                    texts[k] = f.read()
            obs[k] = snapshot(sim)

        def attach_simulation(self, *a, **k):
            pass

        def close(self):
            pass

    return Rec(1)


FIELDS = ["step_count", "natoms", "numbers", "positions", "cell", "momenta", "constraints", "energy", "kinetic",
          "history", "labels", "n_exchange", "table", "delta", "rng"]


def differs(a: dict, b: dict, tol: float | None) -> str | None:
    import math

    for f in FIELDS:
        if f not in a and f not in b:
            continue
        x, y = a.get(f), b.get(f)
        if f in ("energy", "kinetic"):
            if isinstance(x, float) and isinstance(y, float):
                if (math.isnan(x) and math.isnan(y)) or x == y:
                    continue
                if tol is not None and common.close(x, y, tol):
                    continue
            return f
        if x != y:
            return f
    return None


def run_case(case: dict) -> dict:
    from ase.io.jsonio import encode, read_json

    n = case["n"]
    tol = 1e-10 if case.get("calc") == "emt" else None
    out: dict = {"driver": case["driver"], "problems": [], "restarts": 0}
    with tempfile.TemporaryDirectory(prefix="c07-") as tmp, warnings.catch_warnings():
        warnings.simplefilter("ignore")
        path = os.path.join(tmp, "restart.json")
        sim = build_sim(case, path)
        if case["seed"] % 3 == 1:
            # the documented `write_kwargs` of the restart observer (pretty-printed files): how the file is laid out is the
            # writer's business, what it SAYS — the order of the move table included — is the simulation's
            from quansino.io.restart import RestartObserver

            sim.default_restart = RestartObserver(sim, path, interval=1, mode="a", write_kwargs={"indent": 1})
        out["tree"] = tree_of(sim)
        texts: dict[int, str] = {}
        obs: dict[int, dict] = {}
        sim.file_manager.attach_observer("c07-rec", make_recorder(sim, path, texts, obs))
        try:
            sim.run(n)
        except Exception as e:  # noqa: BLE001
            out["problems"].append({"k": -1, "what": f"run:{type(e).__name__}", "message": str(e)[:300]})
            sim.close()
            return out
        sim.close()
        out["steps_written"] = sorted(texts)
        hist = [h for k in obs for h in obs[k].get("history", [])]
        out["accepted"] = sum(1 for h in hist if h[1] is True)
        out["rejected"] = sum(1 for h in hist if h[1] is False)
        out["failed"] = sum(1 for h in hist if h[1] is None)
        out["natoms_range"] = [min(o["natoms"] for o in obs.values()), max(o["natoms"] for o in obs.values())]
        cls = type(sim)   # the documented way: the user names the class, `Cls.from_dict(data)`
        # the restart file must hold what to_dict() of the actual class returns
        for k in sorted(texts):
            p2 = os.path.join(tmp, f"k{k}.json")
            with open(p2, "w") as f:
                f.write(texts[k])
            try:
                data = read_json(p2)
                data_text = encode(data)          # the loaded dictionary as it is before it is used
                sim2 = cls.from_dict(data)
                newcalc = make_calc(case.get("calc", "pure"), committee=case["driver"] == "AdaptiveForceBias")
                if k % 2 == 1 and case.get("calc", "pure") == "pure":
                    # "re-attaching the calculator" may hand back an object that was used before, on ANOTHER
                    # configuration: its cached results must not leak into the continued run
                    other = sim2.atoms.copy()
                    other.rattle(0.3, seed=k)
                    other.calc = newcalc
                    other.get_potential_energy()
                    other.get_forces()
                sim2.atoms.calc = newcalc
            except Exception as e:  # noqa: BLE001
                out["problems"].append({"k": k, "what": f"load:{type(e).__name__}", "message": str(e)[:300]})
                continue
            out["restarts"] += 1
            obs2: dict[int, dict] = {}
            sim2.file_manager.attach_observer("c07-rec", make_recorder(sim2, None, {}, obs2))
            # the loaded state itself
            s2 = snapshot(sim2)
            s2["history"] = obs[k].get("history")          # move_history is a documented transient
            if not hasattr(sim2, "context"):
                s2["energy"] = obs[k]["energy"]            # force-bias: the energy lives in the calculator only
            d0 = differs(obs[k], s2, tol)
            if d0 is not None:
                out["problems"].append({"k": k, "what": f"loaded-state:{d0}", "message": f"state loaded from the file of step {k} differs in {d0}"})
            try:
                sim2.run(n - k)
            except Exception as e:  # noqa: BLE001
                out["problems"].append({"k": k, "what": f"resume:{type(e).__name__}", "message": str(e)[:300]})
                sim2.close()
                continue
            sim2.close()
            # the loaded dictionary may be used again (a second replica, a retry): rebuilding and running must not have
            # changed it
            try:
                if encode(data) != data_text:
                    out["problems"].append({"k": k, "what": "loaded-dictionary-modified",
                                            "message": f"restart at k={k}: the dictionary read from the file was modified by "
                                                       "from_dict()/run(): a second rebuild from it would start elsewhere"})
            except Exception as e:  # noqa: BLE001
                out["problems"].append({"k": k, "what": f"loaded-dictionary-unreadable:{type(e).__name__}", "message": str(e)[:200]})
            for j in range(k + 1, n + 1):
                if j not in obs2:
                    out["problems"].append({"k": k, "what": "missing-step", "message": f"step {j} not observed after restart at {k}"})
                    break
                d = differs(obs[j], obs2[j], tol)
                if d is not None:
                    out["problems"].append({"k": k, "what": d, "message": f"restart at k={k}: step {j} differs in {d}: "
                                            f"uninterrupted {str(obs[j].get(d))[:80]} vs resumed {str(obs2[j].get(d))[:80]}"})
                    break
    return out


def tree_of(obj) -> list:
    """probe-tree description (class names and slots) of a real object, for the model"""
    from props import c08

    S = specs()
    sp = S.get(type(obj).__name__)
    if sp is None:
        return [type(obj).__name__, []]
    kids = []
    for sl in sp["slots"]:
        for key, ch in c08.children_of(obj, sl):
            kids.append([sl["name"], key if sl["shape"] == "dict" else "-", tree_of(ch)])
    return [sp["name"], kids]


class Restart(common.Suite):
    name = "restart"

    def cases(self, rng, tier):
        seed0 = common.seed_from_env()
        out = []
        table = QUICK if tier == "quick" else TABLES
        n = 12 if tier == "quick" else 60
        nseeds = 1 if tier == "quick" else 2
        for drv in table:
            for tab in table[drv]:
                for i in range(nseeds):
                    seed = int(hashlib.sha256(f"{seed0}|{drv}|{tab}|{i}".encode()).hexdigest()[:8], 16) + 1
                    if tab == "falsy" and i == 0:
                        seed = 0  # a falsy seed is a seed
                    out.append({"driver": drv, "table": tab, "seed": seed, "n": n, "calc": "pure"})
        if tier == "thorough":
            for drv, tab in [("Canonical", "ball"), ("Isobaric", "iso"), ("ForceBias", "fb-fixcom"), ("HamiltonianCanonical", "verlet")]:
                out.append({"driver": drv, "table": tab, "seed": seed0 % 100000 + 7, "n": 20, "calc": "emt"})
        return out

    def real(self, case):
        r = run_case(case)
        r["loadable"] = not any(p["what"].startswith(("load:", "loaded-state:")) for p in r["problems"]) and \
            not any(p["what"].startswith("run:") for p in r["problems"])
        return r

    def model_lines(self, case):
        return []  # the tree is only known after the real objects exist: see model_obs_late

    def oracle(self, case, obs):
        d = case["driver"]
        if "exception" in obs and "problems" not in obs:
            return [(f"restart:{d}:harness-exception:{obs['exception']}", obs.get("message", ""))]
        seen, out = set(), []
        for p in obs["problems"]:
            sig = f"restart:{d}:{p['what']}"
            if sig not in seen:
                seen.add(sig)
                ks = [q["k"] for q in obs["problems"] if q["what"] == p["what"]]
                out.append((sig, f"{case['table']} seed {case['seed']}: {p['message']} (restart points affected: {ks[:8]}{'…' if len(ks) > 8 else ''})"))
        return out

    def classify(self, case, obs):
        if "problems" not in obs:
            return "exception"
        moved = obs.get("accepted", 0) > 0 or case["driver"].endswith("ForceBias")
        return f"{case['driver']}:{case['table']}:{'moved' if moved else 'static'}"


class RestartModel(common.Suite):
    """translation validation: for the object tree of every configuration the model predicts whether the file
    can be loaded back into the same state; compared with what the real code did at step 0 and step n"""

    name = "restart-model"

    def cases(self, rng, tier):
        seed0 = common.seed_from_env()
        out = []
        for drv in TABLES:
            for tab in TABLES[drv]:
                out.append({"driver": drv, "table": tab, "seed": seed0 % 1000 + 3, "n": 2, "calc": "pure"})
        return out

    def real(self, case):
        from ase.io.jsonio import decode, encode
        from props import c08

        g = c08.gc()
        with tempfile.TemporaryDirectory(prefix="c07m-") as tmp, warnings.catch_warnings():
            warnings.simplefilter("ignore")
            sim = build_sim(case, os.path.join(tmp, "r.json"))
            sim.run(case["n"])
            tree = tree_of(sim)
            _STATE.setdefault("trees", {})[common.dumps(case)] = tree
            via_todict = decode(encode(sim.todict())) if hasattr(sim, "todict") else None
            direct = decode(encode(sim.to_dict()))
            sim.close()
            same_file = via_todict is not None and g.deep_same(via_todict, direct)
            try:
                new = type(sim).from_dict(via_todict if via_todict is not None else direct)
                sp = specs()[type(sim).__name__]
                lost = [s["name"] for s in sp["settings"]
                        if not g.same(g.read_setting(new, s), g.read_setting(sim, s))]
                lost += [sl["name"] for sl in sp["slots"] if not c08.slot_same(sim, new, sp, sl)]
                outcome = "ok" if not lost else "lost " + ",".join(sorted(lost))
            except Exception as e:  # noqa: BLE001
                outcome = c08.classify_exception(e)
            return {"tree": tree, "outcome": outcome, "file_is_to_dict": bool(same_file)}

    def model_lines(self, case):
        tree = _STATE.get("trees", {}).get(common.dumps(case))
        if tree is None:
            return []
        from props import c08

        return [" ".join(["c08.rt", *c08.tokens(tree), "mut", "-", "none"]), f"c07.todict {tree[0]}"]

    def model_obs(self, case, outs):
        o = outs[0]
        if o.startswith("lost "):
            o = "lost " + ",".join(sorted(o[5:].split(",")))
        return {"outcome": o, "file_is_to_dict": outs[1] == "same"}

    def oracle(self, case, obs):
        d = case["driver"]
        if "outcome" not in obs:
            return [(f"restart:{d}:harness-exception:{obs.get('exception')}", obs.get("message", ""))]
        out = []
        if not obs["file_is_to_dict"]:
            out.append((f"restart:{d}:file-is-not-to_dict", "the dictionary ASE's encoder obtains through todict() differs from to_dict()"))
        if obs["outcome"] != "ok":
            out.append((f"restart:{d}:load:{obs['outcome'].replace(' ', ':')}", f"{case['table']}: from_dict of the written dictionary: {obs['outcome']}"))
        return out

    def classify(self, case, obs):
        return f"{case['driver']}:{obs.get('outcome', 'exception').split()[0]}"


def suites(tier):
    return [RestartModel(), Restart(), fbd.RestartView()]
