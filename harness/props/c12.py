"""C12 — constraints on the atoms are respected (DESIGN §6 C12)."""
from __future__ import annotations

import warnings

import math
import random as _random

import numpy as np

import common
from props import hmc_common as H
from props.c14 import FS, KB, attach_calc, exc_oracle, set_constraint

ID = "C12"
LEAN_MODULES = ["QProps.C12"]
THEOREMS = [
    "Constr.fixatoms_never_move",
    "Constr.fixcom_never_drifts",
    "Constr.fixrot_zero_angular",
    "Constr.fixrot_zero_angular_model",
    "Constr.fixrot_zero_angular_of_noncollinear",
    "Constr.fixrot_keeps_linear",
]
RULE = (
    "real ase FixAtoms / FixCom / quansino FixRot on real Atoms (2-10 atoms, random masses); histories of 50 (quick) / "
    "500 (thorough) trials of real Canonical + DisplacementMove (Ball/Box/TranslationRotation, atomic and molecular labels, "
    "single, move*3 and move+move composites, random check_move vetoes, max_attempts 1-3), HamiltonianCanonical + "
    "HamiltonianDisplacementMove(Verlet(dt, max_steps varied)) and ForceBias (delta, T varied) with harmonic / Morse / EMT "
    "calculators; every trial is also replayed by the Lean Float model from the real state before it; a history is "
    "non-trivial when at least one atom moved"
)
ASSUMPTIONS = [
    "one constraint kind at a time (ASE applies a constraint list sequentially; FixAtoms+FixCom together is ASE behaviour outside the property)",
    "constraint application enabled (apply_constraints=True), as in the property text",
    "FixRot: the eigen-decomposition route to the inverse inertia tensor (numpy/LAPACK) is modelled by a direct 3x3 inverse",
    "rounding drift of the centre of mass is bounded by the oracle tolerance 1e-9*size, not by a theorem",
]

EPS = 2.220446049250313e-16


def _imp():
    import quansino.mc  # noqa: F401
    from ase.units import fs, kB

    return fs, kB


def rand_cons(rng, n, kinds=("fixatoms", "fixcom")):
    k = rng.choice(list(kinds))
    if k == "fixatoms":
        return {"kind": "fixatoms", "indices": sorted(rng.sample(range(n), rng.randint(1, max(1, n - 1))))}
    return {"kind": k}


def com_of(q, m):
    m = np.asarray(m, float)
    return m @ np.asarray(q, float) / m.sum()


# ============================================================================ 1. the constraint primitives


class ConsPrimitives(common.Suite):
    """ASE FixAtoms / FixCom adjust_positions / adjust_momenta / adjust_forces vs the model"""

    name = "constraint-primitives"

    def cases(self, rng, tier):
        k = 150 if tier == "quick" else 2000
        for _ in range(k):
            n = rng.randint(2, 10)
            pos = H.rand_positions(rng, n)
            yield {"symbols": ["Cu"] * n, "positions": pos,
                   "masses": [rng.choice([1.008, 12.011, 63.546, rng.uniform(1, 200)]) for _ in range(n)],
                   "cons": rand_cons(rng, n),
                   "new": [[x + rng.uniform(-1, 1) for x in p] for p in pos],
                   "mom": [[rng.gauss(0, 2) for _ in range(3)] for _ in range(n)],
                   "frc": [[rng.gauss(0, 2) for _ in range(3)] for _ in range(n)]}

    def real(self, case):
        _imp()
        atoms = H.make_atoms(case)
        set_constraint(atoms, case["cons"])
        c = atoms.constraints[0]
        new = np.array(case["new"], float)
        mom = np.array(case["mom"], float)
        frc = np.array(case["frc"], float)
        c.adjust_positions(atoms, new)
        c.adjust_momenta(atoms, mom)
        c.adjust_forces(atoms, frc)
        return {"pos": new.tolist(), "mom": mom.tolist(), "frc": frc.tolist()}

    def model_lines(self, case):
        n = len(case["symbols"])
        return [" ".join(["cadj", str(n), H.enc_cons(case["cons"], n), H.enc_col(case["masses"]), H.enc_arr(case["positions"]),
                          H.enc_arr(case["new"]), H.enc_arr(case["mom"]), H.enc_arr(case["frc"])])]

    def model_obs(self, case, outs):
        w = outs[0].split()
        if w[0] != "ok":
            return {"bad": outs[0]}
        n = len(case["symbols"])
        return {"pos": H.dec_arr(w[1], n).tolist(), "mom": H.dec_arr(w[2], n).tolist(), "frc": H.dec_arr(w[3], n).tolist()}

    def compare(self, case, real, model):
        if "exception" in real or "bad" in model:
            return [f"real={real.get('exception')} model={model.get('bad')}"]
        d = []
        for k in ("pos", "mom", "frc"):
            a, b = np.array(real[k]), np.array(model[k])
            if np.abs(a - b).max() > 1e-10 * max(1.0, np.abs(a).max()):
                d.append(f"{k} differs by {np.abs(a - b).max():.3e}")
        if case["cons"]["kind"] == "fixatoms":
            idx = case["cons"]["indices"]
            if not np.array_equal(np.array(real["pos"])[idx], np.array(model["pos"])[idx]):
                d.append("fixed rows not bit-identical")
        return d

    def oracle(self, case, obs):
        e = exc_oracle("primitives", obs)
        if e:
            return e
        out = []
        old = np.array(case["positions"])
        if case["cons"]["kind"] == "fixatoms":
            idx = case["cons"]["indices"]
            if not np.array_equal(np.array(obs["pos"])[idx], old[idx]):
                out.append(("primitives:fixatoms:positions", "adjust_positions left a fixed atom displaced"))
            if np.abs(np.array(obs["mom"])[idx]).max() != 0.0:
                out.append(("primitives:fixatoms:momenta", "adjust_momenta left a fixed atom with momentum"))
        else:
            size = max(1.0, np.abs(old).max())
            if np.abs(com_of(obs["pos"], case["masses"]) - com_of(old, case["masses"])).max() > 1e-9 * size:
                out.append(("primitives:fixcom:positions", "adjust_positions moved the centre of mass"))
            if np.abs(np.array(obs["mom"]).sum(axis=0)).max() > 1e-9 * max(1.0, np.abs(np.array(case["mom"])).max()):
                out.append(("primitives:fixcom:momenta", "adjust_momenta left a net momentum"))
        return out

    def classify(self, case, obs):
        return case["cons"]["kind"]


# ============================================================================ 2. FixRot


class FixRotSuite(common.Suite):
    name = "fixrot"

    def cases(self, rng, tier):
        k = 150 if tier == "quick" else 2500
        for i in range(k):
            collinear = (i % 25 == 24)
            nearlinear = (i % 6 == 5) and not collinear
            n = rng.randint(3, 10)
            if nearlinear:
                # non-collinear, but close to it (CO2 / HCN a degree or two from linear, a slightly kinked chain): the
                # inertia tensor is invertible with I_min/I_max between 1e-6 and 1e-3 — inside the property
                n = rng.randint(3, 5)
                d = np.array([rng.gauss(0, 1) for _ in range(3)])
                d /= np.linalg.norm(d)
                e1 = np.cross(d, [1.0, 0.3, -0.2])
                e1 /= np.linalg.norm(e1)
                e2 = np.cross(d, e1)
                o = np.array([rng.uniform(-3, 3) for _ in range(3)])
                h = 10 ** rng.uniform(-3, -1.5)
                pos = [(o + (1.3 * j + rng.uniform(-0.2, 0.2)) * d + h * rng.uniform(-1, 1) * e1
                        + h * rng.uniform(-1, 1) * e2).tolist() for j in range(n)]
            elif collinear:
                n = rng.randint(2, 4)
                d = [rng.gauss(0, 1) for _ in range(3)]
                o = [rng.uniform(-3, 3) for _ in range(3)]
                ts = [1.5 * j + rng.uniform(-0.3, 0.3) for j in range(n)]
                pos = [[o[c] + t * d[c] for c in range(3)] for t in ts]
            else:
                pos = H.rand_positions(rng, n, spacing=rng.choice([1.5, 2.6, 4.0]), jitter=rng.choice([0.2, 0.5]))
                shift = [rng.uniform(-20, 20) if rng.random() < 0.3 else 0.0 for _ in range(3)]
                pos = [[p[c] + shift[c] for c in range(3)] for p in pos]
            masses = [rng.choice([1.008, 12.011, 15.999, 63.546, 196.97, rng.uniform(1, 200)]) for _ in range(n)]
            T = rng.choice([10.0, 300.0, 3000.0])
            mom = [[rng.gauss(0, 1) * math.sqrt(m * KB * T) for _ in range(3)] for m in masses]
            if rng.random() < 0.3:  # a rigid rotation plus a drift: large angular momentum
                w = np.array([rng.gauss(0, 0.05) for _ in range(3)])
                v = np.array([rng.gauss(0, 0.02) for _ in range(3)])
                r = np.array(pos) - com_of(pos, masses)
                mom = (np.array(masses)[:, None] * (np.cross(w, r) + v)).tolist()
            yield {"symbols": ["Cu"] * n, "positions": pos, "masses": masses, "momenta": mom, "collinear": collinear,
                   "nearlinear": nearlinear,
                   "via": rng.choice(["direct", "set_momenta"])}

    def real(self, case):
        _imp()
        from quansino.constraints import FixRot

        atoms = H.make_atoms({**case, "momenta": None})
        p = np.array(case["momenta"], float)
        pos_before = atoms.get_positions().tobytes()
        if case["via"] == "direct":
            new = p.copy()
            FixRot().adjust_momenta(atoms, new)
        else:
            atoms.set_constraint(FixRot())
            atoms.set_momenta(p)
            new = atoms.get_momenta()
        m = atoms.get_masses()
        r = atoms.positions - atoms.get_center_of_mass()
        L0 = np.cross(r, p).sum(axis=0)
        L1 = np.cross(r, new).sum(axis=0)
        return {"p": new.tolist(), "L_before": L0.tolist(), "L_after": L1.tolist(),
                "positions_untouched": atoms.get_positions().tobytes() == pos_before and np.array_equal(
                    atoms.get_positions(), np.array(case["positions"], float)),
                "dP": (new.sum(axis=0) - p.sum(axis=0)).tolist(),
                "scale_L": float(np.sum(np.linalg.norm(r, axis=1) * np.linalg.norm(p, axis=1))),
                "scale_P": float(np.abs(p).sum()),
                "cond": float(np.linalg.cond(np.array([[np.sum(m * (r[:, 1]**2 + r[:, 2]**2)), -np.sum(m * r[:, 0] * r[:, 1]), -np.sum(m * r[:, 0] * r[:, 2])],
                                                       [-np.sum(m * r[:, 0] * r[:, 1]), np.sum(m * (r[:, 0]**2 + r[:, 2]**2)), -np.sum(m * r[:, 1] * r[:, 2])],
                                                       [-np.sum(m * r[:, 0] * r[:, 2]), -np.sum(m * r[:, 1] * r[:, 2]), np.sum(m * (r[:, 0]**2 + r[:, 1]**2))]])))}

    def model_lines(self, case):
        if case["collinear"]:
            return []
        n = len(case["symbols"])
        return [" ".join(["fixrot", str(n), H.enc_col(case["masses"]), H.enc_arr(case["positions"]), H.enc_arr(case["momenta"])])]

    def model_obs(self, case, outs):
        w = outs[0].split()
        if w[0] != "ok":
            return {"bad": outs[0]}
        return {"omega": common.lf(w[1]), "p": H.dec_arr(w[2], len(case["symbols"])).tolist(), "L_after": common.lf(w[3])}

    def compare(self, case, real, model):
        if "exception" in real or "bad" in model:
            return [f"real={real.get('exception')} model={model.get('bad')}"]
        a, b = np.array(real["p"]), np.array(model["p"])
        m = np.array(case["masses"])[:, None]
        # compare the correction m*(omega x r) the two computed, relative to its own size
        ca, cb = np.array(case["momenta"]) - a, np.array(case["momenta"]) - b
        scale = max(np.abs(ca).max(), np.abs(cb).max(), 1e-300)
        d = []
        if np.abs(ca - cb).max() > 1e-9 * scale * max(1.0, real["cond"] * 1e-3) + 1e-13 * np.abs(np.array(case["momenta"])).max():
            d.append(f"correction differs by {np.abs(ca - cb).max():.3e} (size {scale:.3e}, cond {real['cond']:.1e})")
        return d

    def oracle(self, case, obs):
        if case["collinear"]:
            return []  # outside the property (singular inertia tensor)
        e = exc_oracle("fixrot", obs)
        if e:
            return e
        out = []
        if obs.get("positions_untouched") is False:
            out.append((f"fixrot:positions-moved:{case['via']}", "adjusting the momenta changed the positions of the atoms"))
        sl = max(obs["scale_L"], 1e-300)
        sp = max(obs["scale_P"], 1e-300)
        la = float(np.abs(np.array(obs["L_after"])).max())
        dp = float(np.abs(np.array(obs["dP"])).max())
        if la > 1e-9 * sl * max(1.0, obs.get("cond", 1.0) * 1e-5):      # inverse of an ill-conditioned tensor: cond * eps
            out.append((f"fixrot:angular-momentum:{case['via']}", f"|L| after = {la:.3e} (before {np.abs(np.array(obs['L_before'])).max():.3e}, scale {sl:.3e})"))
        if dp > 1e-9 * sp:
            out.append((f"fixrot:linear-momentum:{case['via']}", f"|dP| = {dp:.3e} (scale {sp:.3e})"))
        return out

    def classify(self, case, obs):
        if case["collinear"]:
            return "collinear:" + ("exception" if "exception" in obs else "no-exception")
        return f"{case['via']}:n={'3' if len(case['symbols']) == 3 else '>3'}{':near-linear' if case.get('nearlinear') else ''}"


# ============================================================================ histories: shared machinery


def history_oracle(prefix, case, obs):
    e = exc_oracle(prefix, obs)
    if e:
        return e
    out = []
    cons = case["cons"]
    key = f"{cons['kind']}:{case.get('move', case.get('driver', ''))}"
    if cons["kind"] == "fixatoms":
        if obs["max_fixed_dev"] != 0.0:
            out.append((f"{prefix}:fixed-atom-moved:{key}",
                        f"a fixed atom is {obs['max_fixed_dev']:.3e} A away from its initial position (first at trial {obs['first_bad']})"))
    elif cons["kind"] == "fixcom":
        if obs["max_com_dev"] > 1e-9 * obs["size"]:
            out.append((f"{prefix}:com-drift:{key}",
                        f"centre of mass drifted by {obs['max_com_dev']:.3e} A (size {obs['size']:.2f}; first at trial {obs['first_bad']})"))
    return out


class Tracker:
    """follows positions of the real atoms after every trial"""

    def __init__(self, atoms, cons):
        self.atoms = atoms
        self.cons = cons
        self.q0 = atoms.get_positions()
        self.m = atoms.get_masses()
        self.com0 = com_of(self.q0, self.m)
        self.max_fixed = 0.0
        self.max_com = 0.0
        self.max_moved = 0.0
        self.first_bad = None
        self.k = 0

    def look(self):
        q = self.atoms.get_positions()
        bad = False
        if self.cons["kind"] == "fixatoms":
            idx = self.cons["indices"]
            d = float(np.abs(q[idx] - self.q0[idx]).max())
            self.max_fixed = max(self.max_fixed, d)
            bad = d != 0.0
        dc = float(np.abs(com_of(q, self.m) - self.com0).max())
        self.max_com = max(self.max_com, dc)
        if self.cons["kind"] == "fixcom" and dc > 1e-9 * self.size():
            bad = True
        if bad and self.first_bad is None:
            self.first_bad = self.k
        self.max_moved = max(self.max_moved, float(np.abs(q - self.q0).max()))
        self.k += 1

    def size(self):
        return max(1.0, float(np.abs(self.q0).max()))

    def obs(self):
        return {"max_fixed_dev": self.max_fixed, "max_com_dev": self.max_com, "size": self.size(),
                "max_moved": self.max_moved, "first_bad": self.first_bad, "trials": self.k}


def remember(suite, case, trace, meta):
    """keep the first trials of a real run so that the model can replay them (compare runs after all real runs)"""
    if not hasattr(suite, "_traces"):
        suite._traces = {}
    suite._traces[common.dumps(case)] = (trace[:60], meta)


def recall(suite, case):
    return getattr(suite, "_traces", {}).get(common.dumps(case), (None, None))


def state_tokens(q, p, lq, lp):
    return [H.enc_arr(q), H.enc_arr(p), H.enc_arr(lq), H.enc_arr(lp)]


def compare_states(tag, n, masses, real_after, out_line, fixed_idx, dt=None, steps=0):
    w = out_line.split()
    if w[0] != "ok":
        return [f"{tag}: model answered {out_line[:60]}"]
    names = ["q", "p", "lastQ", "lastP"]
    d = []
    qmax = max(1.0, float(np.abs(real_after[0]).max()))
    for k in range(4):
        a = np.asarray(real_after[k])
        b = H.dec_arr(w[1 + k], n)
        tol = 1e-9 * max(1.0, float(np.abs(a).max()))
        if names[k] in ("p", "lastP") and dt:
            tol += 1e3 * EPS * max(1, steps) * float(np.max(masses)) * qmax / dt
        if np.abs(a - b).max() > tol:
            d.append(f"{tag}: {names[k]} differs by {np.abs(a - b).max():.3e} (tol {tol:.1e})")
        if names[k] in ("q", "lastQ") and fixed_idx and not np.array_equal(a[fixed_idx], b[fixed_idx]):
            d.append(f"{tag}: fixed rows of {names[k]} not bit-identical")
    return d


def gen_hist_system(rng, nmax, kinds, emt, molecular=False):
    n = rng.randint(3, nmax)
    pos = H.rand_positions(rng, n, spacing=2.7, jitter=0.25)
    off = [rng.uniform(1.0, 3.0) for _ in range(3)]
    pos = [[p[c] + off[c] for c in range(3)] for p in pos]
    if emt:
        syms = [rng.choice(["Cu", "Ag", "Au", "Al"]) for _ in range(n)]
        masses = None
        ff = {"kind": "emt"}
    else:
        syms = ["Cu"] * n
        masses = [rng.choice([1.008, 12.011, 63.546, rng.uniform(1, 200)]) for _ in range(n)]
        ff = H.rand_ff(rng, n, pos, kinds=kinds)
    return {"symbols": syms, "positions": pos, "masses": masses, "ff": ff, "cell": [14.0, 14.0, 14.0], "pbc": False}


# ============================================================================ 3. displacement histories


class DispHistory(common.Suite):
    name = "history-displacement"

    def cases(self, rng, tier):
        combos = [(c, mv, lab, op) for c in ("fixatoms", "fixcom") for mv in ("single", "times3", "sum")
                  for lab, op in (("atomic", "ball"), ("atomic", "box"), ("molecular", "ball"), ("molecular", "transrot"))]
        rng.shuffle(combos)
        if tier != "quick":
            combos = combos * 2
        for i, (ck, mvk, lab, op) in enumerate(combos):
            emt = i % 6 == 5
            s = gen_hist_system(rng, 8, ("harm", "morse"), emt)
            n = len(s["symbols"])
            s["cons"] = rand_cons(rng, n, kinds=(ck,))
            s["move"] = mvk
            s["labels"] = lab
            s["op"] = op
            s["step_size"] = rng.choice([0.05, 0.3, 1.0])
            s["T"] = rng.choice([300.0, 3000.0, 30000.0])
            s["max_attempts"] = rng.randint(1, 3)
            s["veto_p"] = rng.choice([0.0, 0.3, 0.7])
            s["veto_seed"] = rng.randrange(2**31)
            s["seed"] = rng.randrange(1, 2**31)
            s["ntrials"] = 50 if tier == "quick" else 500
            yield s

    def build(self, case):
        _imp()
        from quansino.mc.canonical import Canonical
        from quansino.moves.displacement import DisplacementMove
        from quansino.operations.displacement import Ball, Box, TranslationRotation

        atoms = H.make_atoms(case)
        attach_calc(atoms, case["ff"])
        set_constraint(atoms, case["cons"])
        n = len(atoms)
        labels = np.arange(n) if case["labels"] == "atomic" else np.arange(n) // 2

        def mkop(kind):
            return {"ball": lambda: Ball(case["step_size"]), "box": lambda: Box(case["step_size"]),
                    "transrot": TranslationRotation}[kind]()

        events = []
        vr = _random.Random(case["veto_seed"])
        objs = []

        def instrument(mv, oid):
            orig = mv.operation.calculate

            def calc(ctx, *a, **k):
                d = orig(ctx, *a, **k)
                t = np.zeros((n, 3))
                t[common.get_moving(ctx)] = d
                events.append(("t", oid, t))
                return d

            mv.operation.calculate = calc

            def check(*_a, **_k):
                v = vr.random() >= case["veto_p"]
                events.append(("c", oid, v))
                return v

            mv.check_move = check
            mv.max_attempts = case["max_attempts"]
            objs.append(mv)

        m1 = DisplacementMove(labels, operation=mkop(case["op"]))
        instrument(m1, 0)
        if case["move"] == "single":
            move = m1
        elif case["move"] == "times3":
            move = m1 * 3
        else:
            m2 = DisplacementMove(labels, operation=mkop("box" if case["op"] != "box" else "ball"))
            instrument(m2, 1)
            move = m1 + m2
        from quansino.mc.criteria import CanonicalCriteria

        mc = Canonical(atoms, temperature=case["T"], seed=case["seed"], max_cycles=1)
        mc.add_move(move, criteria=CanonicalCriteria(), name="move")
        return atoms, mc, events

    def real(self, case):
        atoms, mc, events = self.build(case)
        tr = Tracker(atoms, case["cons"])
        trace = []
        hist = {"acc": 0, "rej": 0, "fail": 0}
        aborted = None
        try:
            for _ in mc.srun(case["ntrials"]):
                acc = mc.move_history[-1][1] if mc.move_history else None
                hist["acc" if acc else ("fail" if acc is None else "rej")] += 1
                after = (atoms.get_positions(), atoms.get_momenta(), mc.context.last_positions.copy(), np.zeros((len(atoms), 3)))
                trace.append({"events": list(events), "accept": acc, "after": after})
                events.clear()
                tr.look()
        except (OverflowError, FloatingPointError, ValueError) as ex:  # a defect of another property ends the history early
            aborted = type(ex).__name__
            tr.look()
        # states before each trial: initial = (q0, p0, q0, 0); then the previous `after`
        q0 = tr.q0
        prev = (q0, np.zeros_like(q0), q0.copy(), np.zeros_like(q0))
        for t in trace:
            t["before"] = prev
            prev = t["after"]
        remember(self, case, trace, None)
        o = tr.obs()
        o.update(hist)
        o["aborted"] = aborted
        return o

    def elems_of(self, case, events):
        """segment the recorded (translation, verdict) events into elementary move calls"""
        elems = []
        cur_t, cur_c = [], []
        for ev in events:
            if ev[0] == "t":
                cur_t.append(ev[2])
            else:
                cur_c.append(ev[2])
                if ev[2] or len(cur_c) == case["max_attempts"]:
                    elems.append((case["max_attempts"], cur_t, cur_c))
                    cur_t, cur_c = [], []
        return elems

    def model_lines(self, case):
        trace, meta = recall(self, case)
        if case["ff"]["kind"] == "emt" or trace is None:
            return []
        n = len(case["symbols"])
        lines = []
        for t in trace[:60]:
            elems = self.elems_of(case, t["events"])
            toks = ["c12trial", str(n), H.enc_cons(case["cons"], n), "1", H.enc_col(case["masses"]), *state_tokens(*t["before"]),
                    "zero", "disp", "1" if t["accept"] else "0", str(len(elems))]
            for ma, ts, cs in elems:
                toks += [str(ma), H.enc_arrs(ts), H.enc_checks(cs)]
            lines.append(" ".join(toks))
        return lines

    def model_obs(self, case, outs):
        return {"outs": outs}

    def compare(self, case, real, model):
        if "exception" in real:
            return []
        n = len(case["symbols"])
        d = []
        fixed = case["cons"].get("indices")
        trace, _ = recall(self, case)
        for i, (t, o) in enumerate(zip(trace, model["outs"])):
            d += compare_states(f"trial {i}", n, case["masses"], t["after"], o, fixed)
            if len(d) > 3:
                break
        return d

    def oracle(self, case, obs):
        return history_oracle("disp", case, obs)

    def classify(self, case, obs):
        if obs.get("max_moved", 0.0) == 0.0:
            return "exception" if "exception" in obs else None
        return (f"{case['cons']['kind']}:{case['move']}:{case['labels']}:{case['op']}:{case['ff']['kind']}"
                + (f":aborted-{obs['aborted']}" if obs.get("aborted") else ""))


# ============================================================================ 4. Hamiltonian histories


class RecordingRNG:
    """delegates to the real numpy Generator and records the normal draws"""

    def __init__(self, gen, log):
        self._gen = gen
        self._log = log

    def standard_normal(self, *a, **k):
        z = self._gen.standard_normal(*a, **k)
        self._log.append(("z", np.array(z, float)))
        return z

    def __getattr__(self, name):
        return getattr(self._gen, name)


class HamHistory(common.Suite):
    name = "history-hamiltonian"

    def cases(self, rng, tier):
        k = 12 if tier == "quick" else 36
        for i in range(k):
            emt = i % 4 == 3
            s = gen_hist_system(rng, 7, ("harm", "morse"), emt)
            n = len(s["symbols"])
            s["cons"] = rand_cons(rng, n)
            s["driver"] = "hmc"
            wmax = 0.45 if emt else H.omega_max(s["ff"], s["masses"], s["positions"])
            s["dt_fs"] = rng.choice([0.05, 0.3, 0.8]) / wmax / FS
            s["steps"] = rng.choice([1, 2, 5, 12])
            s["T"] = rng.choice([100.0, 600.0, 3000.0])
            s["max_attempts"] = rng.randint(1, 3)
            s["veto_p"] = rng.choice([0.0, 0.3, 0.6])
            s["veto_seed"] = rng.randrange(2**31)
            s["seed"] = rng.randrange(1, 2**31)
            s["ntrials"] = 50 if tier == "quick" else 500
            yield s

    def real(self, case):
        fs, kB = _imp()
        from quansino.integrators.displacement import Verlet
        from quansino.mc.canonical import HamiltonianCanonical
        from quansino.moves.displacement import HamiltonianDisplacementMove

        atoms = H.make_atoms(case)
        attach_calc(atoms, case["ff"])
        set_constraint(atoms, case["cons"])
        events = []
        vr = _random.Random(case["veto_seed"])
        if case["seed"] % 3 == 0:
            # the move built with its DEFAULT integrator, configured afterwards — after another default-built move of the
            # same process had its integrator told not to apply constraints: what one object is told must not reach another
            decoy = HamiltonianDisplacementMove()
            decoy.operation.apply_constraints = False
            mv = HamiltonianDisplacementMove()
            ref = Verlet(dt=case["dt_fs"], max_steps=case["steps"])
            mv.operation.dt, mv.operation.max_steps = ref.dt, ref.max_steps
        elif case["seed"] % 3 == 1:
            # the integrator reaches the move AFTER the move was built (`move.operation = Verlet(...)`): an integrator built
            # with its defaults applies the constraints whichever way it comes to the move
            mv = HamiltonianDisplacementMove()
            mv.operation = Verlet(dt=case["dt_fs"], max_steps=case["steps"])
        else:
            mv = HamiltonianDisplacementMove(operation=Verlet(dt=case["dt_fs"], max_steps=case["steps"]))
        mv.max_attempts = case["max_attempts"]

        def check(*_a, **_k):
            v = vr.random() >= case["veto_p"]
            events.append(("c", v))
            return v

        mv.check_move = check
        mc = HamiltonianCanonical(atoms, temperature=case["T"], default_displacement_move=mv, seed=case["seed"], max_cycles=1)
        mc.context.rng = RecordingRNG(mc.context.rng, events)
        tr = Tracker(atoms, case["cons"])
        trace = []
        hist = {"acc": 0, "rej": 0, "fail": 0}
        q0 = atoms.get_positions()
        prev = (q0, atoms.get_momenta(), q0.copy(), mc.context.last_momenta.copy())
        aborted = None
        try:
            for _ in mc.srun(case["ntrials"]):
                acc = mc.move_history[-1][1] if mc.move_history else None
                hist["acc" if acc else ("fail" if acc is None else "rej")] += 1
                after = (atoms.get_positions(), atoms.get_momenta(), mc.context.last_positions.copy(), mc.context.last_momenta.copy())
                trace.append({"events": list(events), "accept": acc, "before": prev, "after": after})
                prev = after
                events.clear()
                tr.look()
        except (OverflowError, FloatingPointError, ValueError) as ex:  # a defect of another property ends the history early
            aborted = type(ex).__name__
            tr.look()
        _meta = {"dt": mv.operation.dt, "kT": case["T"] * kB, "ndof": int(atoms.get_number_of_degrees_of_freedom())}
        remember(self, case, trace, _meta)
        o = tr.obs()
        o.update(hist)
        o["aborted"] = aborted
        return o

    def model_lines(self, case):
        trace, meta = recall(self, case)
        if case["ff"]["kind"] == "emt" or trace is None:
            return []
        n = len(case["symbols"])
        lines = []
        for t in trace[:40]:
            zs = [e[1] for e in t["events"] if e[0] == "z"]
            cs = [e[1] for e in t["events"] if e[0] == "c"]
            toks = ["c12trial", str(n), H.enc_cons(case["cons"], n), "1", H.enc_col(case["masses"]), *state_tokens(*t["before"]),
                    H.enc_ff(case["ff"]), "ham", "1" if t["accept"] else "0", common.fbits(meta["dt"]), str(case["steps"]),
                    common.fbits(meta["kT"]), str(meta["ndof"]), "0", str(case["max_attempts"]), H.enc_arrs(zs), H.enc_checks(cs)]
            lines.append(" ".join(toks))
        return lines

    def model_obs(self, case, outs):
        return {"outs": outs}

    def compare(self, case, real, model):
        if "exception" in real:
            return []
        n = len(case["symbols"])
        d = []
        fixed = case["cons"].get("indices")
        trace, meta = recall(self, case)
        for i, (t, o) in enumerate(zip(trace, model["outs"])):
            d += compare_states(f"trial {i}", n, case["masses"], t["after"], o, fixed, dt=meta["dt"], steps=case["steps"])
            if len(d) > 3:
                break
        return d

    def oracle(self, case, obs):
        return history_oracle("ham", case, obs)

    def classify(self, case, obs):
        if obs.get("max_moved", 0.0) == 0.0:
            return "exception" if "exception" in obs else None
        return (f"{case['cons']['kind']}:{case['ff']['kind']}:steps={case['steps']}:"
                f"{'acc' if obs['acc'] else ''}{'+rej' if obs['rej'] else ''}{'+fail' if obs['fail'] else ''}"
                + (f":aborted-{obs['aborted']}" if obs.get("aborted") else ""))


# ============================================================================ 5. force-bias histories


class FBHistory(common.Suite):
    name = "history-forcebias"

    def cases(self, rng, tier):
        k = 12 if tier == "quick" else 36
        for i in range(k):
            emt = i % 4 == 3
            s = gen_hist_system(rng, 8, ("harm", "morse"), emt)
            n = len(s["symbols"])
            s["cons"] = rand_cons(rng, n)
            s["driver"] = "fbmc"
            s["delta"] = rng.choice([0.01, 0.05, 0.2, 0.6])
            s["T"] = rng.choice([50.0, 300.0, 2000.0])
            s["seed"] = rng.randrange(1, 2**31)
            s["ntrials"] = 50 if tier == "quick" else 500
            # the driver's own mass table: the atoms' masses (default), a custom (n, 3) table given to
            # update_masses(), or atoms whose masses are changed after the driver was built
            s["mass_mode"] = ["default", "table", "changed", "table"][i % 4] if i >= 2 else "default"
            s["table"] = [[round(rng.uniform(0.5, 40.0), 3) for _ in range(3)] for _ in range(n)]
            # the constraints are put on the atoms AFTER the driver has taken its first free steps (relax freely, then freeze a
            # layer and go on): what counts is what the atoms carry when a step is taken
            s["late_cons"] = i % 3 == 1
            yield s

    def real(self, case):
        _imp()
        from quansino.mc.fbmc import ForceBias

        atoms = H.make_atoms(case)
        attach_calc(atoms, case["ff"])
        if not case.get("late_cons"):
            set_constraint(atoms, case["cons"])
        with warnings.catch_warnings():
            warnings.simplefilter("ignore")
            fb = ForceBias(atoms, delta=case["delta"], temperature=case["T"], seed=case["seed"])
            if case.get("late_cons"):
                fb.run(3)
                set_constraint(atoms, case["cons"])
        mode = case.get("mass_mode", "default")
        if mode == "table":
            fb.update_masses(np.array(case["table"], float))
        elif mode == "changed":
            atoms.set_masses(np.array(case["table"], float)[:, 0])
            case["masses"] = [float(x) for x in atoms.get_masses()]
        shaped = np.array(fb.shaped_masses, float)
        rec = []
        orig = atoms.set_momenta

        def set_momenta(momenta, *a, **k):
            rec.append(np.array(momenta, float))
            return orig(momenta, *a, **k)

        atoms.set_momenta = set_momenta
        tr = Tracker(atoms, case["cons"])
        trace = []
        prev = (atoms.get_positions(), atoms.get_momenta())
        for _ in fb.irun(case["ntrials"]):
            after = (atoms.get_positions(), atoms.get_momenta())
            trace.append({"disp": (rec[-1] / shaped) if rec else None, "shaped": shaped, "before": prev,
                          "after": after})
            prev = after
            rec.clear()
            tr.look()
        remember(self, case, trace, None)
        return tr.obs()

    def model_lines(self, case):
        trace, meta = recall(self, case)
        if case["ff"]["kind"] == "emt" or trace is None:
            return []
        n = len(case["symbols"])
        lines = []
        for t in trace[:60]:
            if t["disp"] is None:
                continue
            q, p = t["before"]
            lines.append(" ".join(["c12trial", str(n), H.enc_cons(case["cons"], n), "1", H.enc_col(case["masses"]),
                                   *state_tokens(q, p, q, p), "zero", "fb", H.enc_arr(t["disp"]),
                                   H.enc_arr(t["shaped"])]))
        return lines

    def model_obs(self, case, outs):
        return {"outs": outs}

    def compare(self, case, real, model):
        if "exception" in real:
            return []
        n = len(case["symbols"])
        d = []
        fixed = case["cons"].get("indices")
        trace, _ = recall(self, case)
        ts = [t for t in trace[:60] if t["disp"] is not None]
        for i, (t, o) in enumerate(zip(ts, model["outs"])):
            q, p = t["after"]
            bq, bp = t["before"]
            d += compare_states(f"step {i}", n, case["masses"], (q, p, bq, bp), o, fixed)
            if len(d) > 3:
                break
        return d

    def oracle(self, case, obs):
        return history_oracle("fb", case, obs)

    def classify(self, case, obs):
        if obs.get("max_moved", 0.0) == 0.0:
            return "exception" if "exception" in obs else None
        return f"{case['cons']['kind']}:{case['ff']['kind']}:delta={case['delta']}:{case.get('mass_mode', 'default')}"


def suites(tier):
    return [ConsPrimitives(), FixRotSuite(), DispHistory(), HamHistory(), FBHistory()]
