"""C15 — observers fire on schedule and splitting a run does not change it (DESIGN §6 C15).

Real side: Canonical / GrandCanonical / ForceBias on a 4-atom cell with a cheap stateless calculator,
in-memory log / trajectory / restart files, recording observers attached next to them. Every case is one
sequence of consecutive run calls (segments, zeros included) through one entry point; the same configuration
is also run unsplit (`run(sum)`), same seed, and the two are compared (that comparison is the oracle).
Model side: `runloop fixed …` (the loop after harness/patches/C15-step0-once.diff).
"""
from __future__ import annotations

import hashlib
import io
import warnings
import itertools

import common

from props import fbd

ID = "C15"
LEAN_MODULES = ["QProps.C15", "QProps.C15m", *fbd.LEAN_MODULES_C15, "QProps.C15r"]
THEOREMS = [
    "RDict.runStart_keeps",
    "RDict.split_invisible",
    "RDict.boundary_save",
    "RDict.boundary_revert",
    "RDict.boundary_request",
    "RDict.pinned_split_visible",
    *fbd.THEOREMS_C15,
    "RunLoop.split_run_on",
    "RunLoop.split_many_on",
    "MM.mm_stable_upto",
    "MM.mm_stable_upto_grand",
    "MM.mm_split_run",
    "MM.mm_split_run_grand",
    "MM.mm_split_many",
    "MM.mm_split_run_after_edit",
    "RunLoop.positive_interval_calls",
    "RunLoop.positive_interval_set",
    "RunLoop.negative_interval_once",
    "RunLoop.zero_interval_never",
    "RunLoop.sweep_in_attach_order",
    "RunLoop.header_once_single",
    "RunLoop.no_header_elsewhere",
    "RunLoop.header_once_before_rows",
    "RunLoop.split_run",
    "RunLoop.split_irun",
    "RunLoop.split_run_coded_partial",
    "RunLoop.split_run_coded_false",
    "RunLoop.split_many",
    "RunLoop.split_run_files",
    "RunLoop.entry_points_agree",
    "RunLoop.exact_steps",
    "RunLoop.irun_unconsumed_no_steps",
]
RULE = (
    "one case = (driver in Canonical/GrandCanonical/ForceBias, entry point in run/srun/irun fully iterated/irun with "
    "the yielded values ignored, intervals from {-7..-1,1..7} (and 0) for the default logger, trajectory, restart "
    "observer and 1-3 recording observers, a list of segment lengths): every composition of n<=7 (quick) / sampled "
    "compositions of n<=12 (thorough) with zero-length segments inserted in front, inside and at the end, each for "
    "every driver; non-trivial = at least one step or one zero-length call; distinct = distinct case dictionaries"
)
ASSUMPTIONS = [
    "validate_simulation is a no-op on a state produced by steps of a validated simulation (hypothesis ValidateStable "
    "of the split theorems; its consequence — split and unsplit runs give bitwise equal atoms — is checked on every case)",
    "an observer's output is a function of the simulation state and step_count at the moment it is called",
    "MonteCarlo.step is modelled as a lazy generator executed by whoever exhausts it, ForceBias.step as an eager call",
    "the model mirrors the run loop after harness/patches/C15-step0-once.diff (step-0 block once per object)",
]

DRIVERS = ["can", "gc", "fb", "afb"]
FBLIKE = ("fb", "afb")     # drivers without a move table / restart file / srun
IVALS = [-7, -6, -5, -4, -3, -2, -1, 1, 2, 3, 4, 5, 6, 7]


# --------------------------------------------------------------------------- real side


def _imports():
    import warnings

    warnings.simplefilter("ignore")
    import numpy as np
    import quansino.mc  # noqa: F401  (import order: see C08)
    from ase import Atoms
    from ase.build import bulk
    from ase.calculators.calculator import Calculator, all_changes
    from quansino.io.core import Observer
    from quansino.io.logger import Logger
    from quansino.io.restart import RestartObserver
    from quansino.io.trajectory import TrajectoryObserver
    from quansino.mc.canonical import Canonical
    from quansino.mc.fbmc import AdaptiveForceBias, ForceBias
    from quansino.mc.gcmc import GrandCanonical
    from quansino.moves.displacement import DisplacementMove
    from quansino.moves.exchange import ExchangeMove

    class Harm(Calculator):
        """stateless harmonic well: cheap, works for any number of atoms"""

        implemented_properties = ["energy", "forces"]  # noqa: RUF012

        def calculate(self, atoms=None, properties=None, system_changes=all_changes):
            super().calculate(atoms, properties, system_changes)
            d = self.atoms.get_positions() - 1.7
            self.results = {"energy": 0.05 * float((d * d).sum()), "forces": -0.1 * d}

    class HarmComm(Harm):
        """the same well with a committee whose spread depends on the configuration: what AdaptiveForceBias reads from
        `calc.results` at the start of a step must belong to the configuration the previous step ended in"""

        def calculate(self, atoms=None, properties=None, system_changes=all_changes):
            super().calculate(atoms, properties, system_changes)
            f = self.results["forces"]
            spread = 0.3 * np.abs(np.sin(self.atoms.get_positions()))
            self.results["forces_comm"] = np.stack([f * (1 + (k - 1) * spread) for k in range(3)])

    class Rec(Observer):
        def __init__(self, interval, sink, pos, sim):
            super().__init__(interval)
            self.sink, self.pos, self.sim = sink, pos, sim

        def __call__(self):
            self.sink.append([self.pos, self.sim.step_count, len(self.sim._executed)])

        def attach_simulation(self, *a, **k):
            pass

        def close(self):
            pass

    def recording(base):
        class R(base):
            def __call__(self):
                self.sink.append([self.pos, self.sim().step_count, len(self.sim()._executed)])
                super().__call__()

        R.__name__ = base.__name__
        return R

    class RLogger(recording(Logger)):
        def write_header(self):
            self.sink.append([self.pos, "H"])
            super().write_header()

    def counting(base, lazy):
        if lazy:
            class C(base):
                def step(self):
                    yield from super().step()
                    self._executed.append(self.step_count)
        else:
            class C(base):
                def step(self):
                    r = super().step()
                    self._executed.append(self.step_count)
                    return r
        C.__name__ = C.__qualname__ = base.__name__
        return C

    return dict(np=np, Atoms=Atoms, bulk=bulk, Harm=Harm, Rec=Rec, RLogger=RLogger,
                RTraj=recording(TrajectoryObserver), RRestart=recording(RestartObserver),
                Can=counting(Canonical, True), GC=counting(GrandCanonical, True), FB=counting(ForceBias, False),
                AFB=counting(AdaptiveForceBias, False), HarmComm=HarmComm,
                DisplacementMove=DisplacementMove, ExchangeMove=ExchangeMove)


_ENV = {}


def env():
    if not _ENV:
        _ENV.update(_imports())
    return _ENV


def build(case):
    """a fresh simulation with its files and recorders; returns (sim, files, sink, positions)"""
    E = env()
    np = E["np"]
    atoms = E["bulk"]("Cu", cubic=True)
    if case.get("calc") == "emt":
        from ase.calculators.emt import EMT

        atoms.calc = EMT()
    elif case["driver"] == "afb":
        atoms.calc = E["HarmComm"]()
    else:
        atoms.calc = E["Harm"]()
    sink: list = []
    files = {"log": io.StringIO(), "traj": io.StringIO(), "restart": io.StringIO()}
    d = case["driver"]
    li, ti, ri = case["logint"], case["trajint"], case["restint"]
    wrap = case["wrap"]
    simref = []
    getsim = lambda: simref[0]  # noqa: E731
    if wrap:
        lg = E["RLogger"](files["log"], interval=li, mode="a")
        tr = E["RTraj"](atoms, files["traj"], interval=ti, mode="a")
        for o, pos in ((lg, 0), (tr, 1)):
            o.sink, o.pos, o.sim = sink, pos, getsim
        kw = dict(logfile=lg, trajectory=tr)
    else:
        kw = dict(logfile=files["log"], trajectory=files["traj"], logging_interval=li)
        if d not in FBLIKE:
            kw["restart_file"] = files["restart"]
    seed = case["seed"]
    if d == "can":
        sim = E["Can"](atoms, temperature=3000.0, seed=seed,
                       default_displacement_move=E["DisplacementMove"](np.arange(len(atoms))), **kw)
    elif d == "gc":
        sim = E["GC"](atoms, E["Atoms"]("Cu"), temperature=5000.0, chemical_potential=0.0, max_cycles=2, seed=seed,
                      number_of_exchange_particles=len(atoms),
                      default_exchange_move=E["ExchangeMove"](np.arange(len(atoms))),
                      default_displacement_move=E["DisplacementMove"](np.arange(len(atoms))), **kw)
    elif d == "afb":
        sim = E["AFB"](atoms, 0.02, 0.3, temperature=300.0, seed=seed, **kw)
    else:
        sim = E["FB"](atoms, delta=0.1, temperature=300.0, seed=seed, **kw)
    sim._executed = []
    simref.append(sim)
    # attach order (= dict insertion order of file_manager.observers)
    if wrap:
        ivs = [li, ti]
        if d not in FBLIKE:
            rs = E["RRestart"](sim, files["restart"], interval=ri, mode="a")
            rs.sink, rs.pos, rs.sim = sink, 2, getsim
            sim.default_restart = rs
            ivs.append(ri)
    else:
        ivs = [li, li, li] if d not in FBLIKE else [li, li]  # logger, restart, trajectory | logger, trajectory
    for n, iv in enumerate(case["recint"]):
        pos = len(ivs)
        sim.file_manager.attach_observer(f"rec{n}", E["Rec"](iv, sink, pos, sim))
        ivs.append(iv)
    assert [o.interval for o in sim.file_manager.observers.values()] == ivs
    return sim, files, sink, ivs


def drive(sim, entry, n, lazy):
    if entry == "run":
        sim.run(n)
    elif entry == "srun":
        for _ in sim.srun(n):
            pass
    elif entry == "irun":
        for st in sim.irun(n):
            if lazy:
                for _ in st:
                    pass
    elif entry == "irunraw":
        for _ in sim.irun(n):
            pass
    else:
        raise ValueError(entry)


def digest(b: bytes) -> str:
    return hashlib.sha256(b).hexdigest()[:16]


def observe(case, segs, entry):
    sim, files, sink, ivs = build(case)
    if case.get("prepared") and entry in ("irun", "irunraw"):
        lazy = case["driver"] not in FBLIKE and entry == "irun"
        for g in [sim.irun(n) for n in segs]:
            for st in g:
                if lazy:
                    for _ in st:
                        pass
    else:
        for n in segs:
            drive(sim, entry, n, case["driver"] not in FBLIKE)
    at = sim.atoms
    log = files["log"].getvalue()
    lines = log.split("\n")
    if lines and lines[-1] == "":
        lines.pop()
    seq = ["H" if ln.startswith("Class") else int(ln.split()[1]) for ln in lines]
    traj = files["traj"].getvalue()
    nframes = 0
    tl = traj.split("\n")
    i = 0
    while i < len(tl) and tl[i].strip():
        nat = int(tl[i])
        nframes += 1
        i += nat + 2
    rst = files["restart"].getvalue()
    rstep = None
    if rst:
        from ase.io.jsonio import decode

        rstep = int(decode(rst)["attributes"]["step_count"])
    return {
        "step_count": int(sim.step_count), "max_steps": int(sim.max_steps), "executed": list(sim._executed),
        "trace": [list(e) for e in sink], "intervals": ivs,
        "log": log, "log_seq": seq, "traj": traj, "frames": nframes, "restart": rst, "restart_step": rstep,
        "atoms": digest(at.get_positions().tobytes() + at.numbers.tobytes() + at.cell.array.tobytes()),
        "natoms": len(at),
    }


def schedule(iv, n):
    """the property's schedule for one observer over a fresh run of n steps"""
    if iv > 0:
        return [k for k in range(n + 1) if k % iv == 0]
    if iv < 0:
        return [-iv] if -iv <= n else []
    return []


def step0_dup(split, unsplit, ms):
    """is `split` = `unsplit` with a prefix B of it (the step-0 part) written m times instead of once?"""
    if split == unsplit:
        return False
    for m in ms:
        extra = len(split) - len(unsplit)
        if m < 2 or extra <= 0 or extra % (m - 1):
            continue
        b = unsplit[: extra // (m - 1)]
        if split == b * m + unsplit[len(b):]:
            return True
    return False


def total(case):
    return sum(case["segs"])


def leading_zero(case):
    return bool(case["segs"]) and case["segs"][0] == 0


def fully_iterated(case):
    return case["entry"] != "irunraw" or case["driver"] in FBLIKE


class RunSplit(common.Suite):
    name = "run-split"

    def __init__(self):
        self.ref = {}

    # ---------------------------------------------------------------- generation
    def mk(self, rng, driver, segs, entry=None, force=None):
        if entry is None:
            entry = rng.choice(["run", "run", "irun", "irunraw"] + (["srun", "srun"] if driver not in FBLIKE else []))
        iv = lambda: rng.choice(IVALS + [1, 1, 2, 3, 0])  # noqa: E731
        c = {"driver": driver, "entry": entry, "segs": list(segs), "seed": rng.randrange(1, 2**31),
             "wrap": rng.random() < 0.6, "logint": iv(), "trajint": iv(), "restint": iv(),
             "recint": [iv() for _ in range(rng.randint(1, 3))]}
        if force:
            c.update(force)
        if not c["wrap"]:
            c["trajint"] = c["restint"] = c["logint"]
        # the `irun` generators of all segments are CREATED first and iterated one after the other afterwards
        # (`itertools.chain(sim.irun(a), sim.irun(b))`): each, fully iterated, performs exactly its own number of steps
        c["prepared"] = c["entry"] in ("irun", "irunraw") and c["seed"] % 3 == 0
        return c

    def cases(self, rng, tier):
        out = []
        # the zero-length corner, every driver and entry point
        for d in DRIVERS:
            for e in ["run", "irun", "irunraw"] + (["srun"] if d not in FBLIKE else []):
                for segs in ([0, 3], [0, 0, 2], [0], [0, 0], [2, 0, 1], [3, 0], [], [1], [0, 1, 0, 1, 0]):
                    out.append(self.mk(rng, d, segs, e, {"logint": 1, "recint": [1, 2, -1]}))
        nmax = 7 if tier == "quick" else 9
        for n in range(nmax + 1):
            for cuts in itertools.product([0, 1], repeat=max(n - 1, 0)):
                segs, cur = [], 1
                for c in cuts:
                    if c:
                        segs.append(cur)
                        cur = 1
                    else:
                        cur += 1
                segs.append(cur)
                if n == 0:
                    segs = [0]
                for d in DRIVERS * (2 if tier == "quick" else 1):
                    s2 = list(segs)
                    z = rng.choice([0, 0, 0, 1, 1, 2, 2, 2, 3])  # zero-length calls: none / in front / anywhere / everywhere
                    if z == 1:
                        s2 = [0] * rng.randint(1, 2) + s2
                    elif z == 2:
                        for _ in range(rng.randint(1, 3)):
                            s2.insert(rng.randint(0, len(s2)), 0)
                    elif z == 3:
                        s2 = [x for s in s2 for x in (0, s)] + [0]
                    out.append(self.mk(rng, d, s2))
        if tier == "thorough":
            for _ in range(1500):
                n = rng.randint(8, 12)
                segs = []
                left = n
                while left > 0:
                    k = rng.randint(0, min(left, 5))
                    segs.append(k)
                    left -= k
                if rng.random() < 0.3:
                    segs.insert(0, 0)
                out.append(self.mk(rng, rng.choice(DRIVERS), segs))
            for _ in range(40):
                out.append(self.mk(rng, "can", [rng.randint(0, 3) for _ in range(3)], None, {"calc": "emt"}))
        return out

    # ---------------------------------------------------------------- real
    def real(self, case):
        obs = observe(case, case["segs"], case["entry"])
        key = common.dumps({k: v for k, v in case.items() if k not in ("segs", "entry")}) + f"|{total(case)}"
        if fully_iterated(case) and case["segs"]:
            if key not in self.ref:
                self.ref[key] = observe(case, [total(case)], "run")
            obs["unsplit"] = self.ref[key]
        return obs

    # ---------------------------------------------------------------- model
    def model_lines(self, case):
        d = case["driver"]
        if case["wrap"]:
            ivs = [case["logint"], case["trajint"]] + ([case["restint"]] if d not in FBLIKE else [])
        else:
            ivs = [case["logint"]] * (3 if d not in FBLIKE else 2)
        ivs = ivs + case["recint"]
        segs = ",".join(map(str, case["segs"])) or "-"
        return [f"runloop fixed {'eager' if d in FBLIKE else 'lazy'} {case['entry']} 0 {','.join(map(str, ivs))} {segs}"]

    def model_obs(self, case, outs):
        w = outs[0].split()
        if w[0] != "ok":
            return {"model": outs[0]}
        tr = []
        if w[5] != "-":
            for t in w[5].split(","):
                p = t.split(":")
                tr.append([int(p[0]), "H"] if p[1] == "H" else [int(p[0]), int(p[1]), int(p[2])])
        d = case["driver"]
        ndef = (3 if d not in FBLIKE else 2)
        m = {"step_count": int(w[1]), "executed": [] if w[4] == "-" else [int(x) for x in w[4].split(",")]}
        if case["segs"]:
            m["max_steps"] = int(w[2])
        m["log_seq"] = [e[1] for e in tr if e[0] == 0]
        tpos = 1 if case["wrap"] or d in FBLIKE else 2
        m["frames"] = len([e for e in tr if e[0] == tpos])
        if d not in FBLIKE:
            rpos = 2 if case["wrap"] else 1
            rc = [e[1] for e in tr if e[0] == rpos]
            m["restart_step"] = rc[-1] if rc else None
        m["trace"] = tr if case["wrap"] else [e for e in tr if e[0] >= ndef]
        return m

    # ---------------------------------------------------------------- the property on the real observation
    def oracle(self, case, obs):
        if "exception" in obs:
            return [("c15:unexpected-exception:" + obs["exception"], obs["message"])]
        if not fully_iterated(case):
            return []  # the property speaks about fully iterated generators only
        out = []
        d = case["driver"]
        N = total(case)
        ran = bool(case["segs"])
        z = 0
        while z < len(case["segs"]) and case["segs"][z] == 0:
            z += 1
        ms = (z, z + 1)  # how often a loop that re-enters its step-0 block at step_count == 0 would run it
        repeated0 = []
        # exact number of steps, in order
        if obs["executed"] != list(range(N)) or obs["step_count"] != N:
            out.append((f"entry:{case['entry']}:steps", f"executed {obs['executed']} step_count {obs['step_count']} for {case['segs']}"))
        # schedule of every recorded observer
        calls: dict[int, list] = {}
        for e in obs["trace"]:
            calls.setdefault(e[0], []).append(e)
        first = 0 if case["wrap"] else (3 if d not in FBLIKE else 2)
        for pos in range(first, len(obs["intervals"])):
            iv = obs["intervals"][pos]
            got = [e for e in calls.get(pos, []) if e[1] != "H"]
            ks = [e[1] for e in got]
            want = schedule(iv, N) if ran else []
            if ks != want:
                if step0_dup(ks, want, ms):
                    repeated0.append(f"observer {pos} (interval {iv}) called at {ks}")
                else:
                    out.append((f"schedule:{'pos' if iv > 0 else 'neg' if iv < 0 else 'zero'}",
                                f"observer {pos} interval {iv}: called at {ks}, expected {want} ({case['segs']})"))
            if any(e[2] != e[1] for e in got):
                out.append(("schedule:call-before-step", f"observer {pos}: (step_count, executed) = {[e[1:] for e in got]}"))
        # the log: header once, first; one row per scheduled call
        if ran:
            want_seq = ["H", *schedule(case["logint"], N)]
            if obs["log_seq"] != want_seq:
                if step0_dup(obs["log_seq"], want_seq, ms):
                    repeated0.append(f"log lines {obs['log_seq']}")
                elif [x for x in obs["log_seq"] if x != "H"] == want_seq[1:]:
                    out.append(("header:not-once-first", f"log lines {obs['log_seq']}"))
                else:
                    out.append(("log:rows", f"log lines {obs['log_seq']} expected {want_seq}"))
            if obs["frames"] != len(schedule(case["trajint"], N)):
                if obs["frames"] in [len(schedule(case["trajint"], N)) + (m - 1) * len(schedule(case["trajint"], 0)) for m in ms]:
                    repeated0.append(f"{obs['frames']} frames")
                else:
                    out.append(("trajectory:frames", f"{obs['frames']} frames, interval {case['trajint']}, {N} steps"))
        # split == unsplit
        un = obs.get("unsplit")
        if un is not None:
            hard = [k for k in ("step_count", "atoms", "natoms", "executed") if obs[k] != un[k]]
            if hard:
                out.append((f"split:trajectory-differs:{d}", f"{case['segs']} vs unsplit: {hard}"))
            for k in ("log", "traj", "restart", "trace"):
                if obs[k] != un[k]:
                    if k != "restart" and step0_dup(obs[k], un[k], ms):
                        repeated0.append(f"{k} has the step-0 part of the unsplit {k} {len(obs[k]) - len(un[k])} items/bytes too often")
                    else:
                        out.append((f"split:files-differ:{k}:{d}", f"{case['segs']} vs unsplit run({N})"))
        if repeated0:
            out.append(("split:step0-repeated",
                        f"{d} {case['entry']} segments {case['segs']}: header / step-0 observer calls repeated: "
                        + "; ".join(repeated0)[:600]))
        return out

    def classify(self, case, obs):
        if not case["segs"]:
            return None
        z = "zero@0" if leading_zero(case) else ("zero" if 0 in case["segs"] else "nozero")
        ivs = [case["logint"], case["trajint"], case["restint"], *case["recint"]]
        sg = ("neg" if any(i < 0 for i in ivs) else "") + ("pos" if any(i > 0 for i in ivs) else "")
        return f"{case['driver']}:{case['entry']}:{z}:{sg}:{'wrapped' if case['wrap'] else 'plain'}"


class NoLoggerSplit(common.Suite):
    """the same schedule / split clauses for simulations WITHOUT a log file (only trajectory/recording observers):
    the step-0 block must run once however many zero-length runs come first"""

    name = "run-split-no-logger"

    def cases(self, rng, tier):
        out = []
        n = 90 if tier == "quick" else 900
        for _ in range(n):
            d = rng.choice(DRIVERS)
            segs = [rng.randint(0, 3) for _ in range(rng.randint(1, 4))]
            if rng.random() < 0.6:
                segs = [0] * rng.randint(1, 2) + segs
            entry = rng.choice(["run", "irun"] + (["srun"] if d not in FBLIKE else []))
            out.append({"driver": d, "entry": entry, "segs": segs, "seed": rng.randrange(1, 2**31),
                        "trajint": rng.choice([1, 2, 3, -1, -2]), "recint": [rng.choice(IVALS + [1, 2]) for _ in range(rng.randint(1, 2))]})
        return out

    def build(self, case):
        E = env()
        np = E["np"]
        atoms = E["bulk"]("Cu", cubic=True)
        atoms.calc = E["Harm"]()
        sink = []
        traj = io.StringIO()
        simref = []
        getsim = lambda: simref[0]  # noqa: E731
        tr = E["RTraj"](atoms, traj, interval=case["trajint"], mode="a")
        tr.sink, tr.pos, tr.sim = sink, 0, getsim
        kw = dict(trajectory=tr, seed=case["seed"])
        d = case["driver"]
        if d == "can":
            sim = E["Can"](atoms, temperature=3000.0, default_displacement_move=E["DisplacementMove"](np.arange(len(atoms))), **kw)
        elif d == "gc":
            sim = E["GC"](atoms, E["Atoms"]("Cu"), temperature=5000.0, chemical_potential=0.0, max_cycles=2,
                          number_of_exchange_particles=len(atoms),
                          default_exchange_move=E["ExchangeMove"](np.arange(len(atoms))),
                          default_displacement_move=E["DisplacementMove"](np.arange(len(atoms))), **kw)
        else:
            sim = E["FB"](atoms, delta=0.1, temperature=300.0, **kw)
        sim._executed = []
        simref.append(sim)
        ivs = [case["trajint"]]
        for n, iv in enumerate(case["recint"]):
            sim.file_manager.attach_observer(f"rec{n}", E["Rec"](iv, sink, len(ivs), sim))
            ivs.append(iv)
        return sim, traj, sink, ivs

    def observe(self, case, segs, entry):
        sim, traj, sink, ivs = self.build(case)
        for n in segs:
            drive(sim, entry, n, case["driver"] not in FBLIKE)
        at = sim.atoms
        return {"step_count": int(sim.step_count), "executed": list(sim._executed), "trace": [list(e) for e in sink],
                "intervals": ivs, "traj": traj.getvalue(),
                "atoms": digest(at.get_positions().tobytes() + at.numbers.tobytes() + at.cell.array.tobytes())}

    def real(self, case):
        obs = self.observe(case, case["segs"], case["entry"])
        obs["unsplit"] = self.observe(case, [total(case)], "run")
        return obs

    def model_lines(self, case):
        ivs = [case["trajint"], *case["recint"]]
        segs = ",".join(map(str, case["segs"])) or "-"
        return [f"runloop fixed {'eager' if case['driver'] in FBLIKE else 'lazy'} {case['entry']} - {','.join(map(str, ivs))} {segs}"]

    def model_obs(self, case, outs):
        w = outs[0].split()
        if w[0] != "ok":
            return {"model": outs[0]}
        tr = []
        if w[5] != "-":
            for t in w[5].split(","):
                p = t.split(":")
                tr.append([int(p[0]), int(p[1]), int(p[2])])
        return {"step_count": int(w[1]), "executed": [] if w[4] == "-" else [int(x) for x in w[4].split(",")], "trace": tr}

    def oracle(self, case, obs):
        if "exception" in obs:
            return [("c15:unexpected-exception:" + obs["exception"], obs["message"])]
        out = []
        N = total(case)
        if obs["executed"] != list(range(N)) or obs["step_count"] != N:
            out.append((f"entry:{case['entry']}:steps", f"executed {obs['executed']} for {case['segs']}"))
        calls = {}
        for e in obs["trace"]:
            calls.setdefault(e[0], []).append(e[1])
        for pos, iv in enumerate(obs["intervals"]):
            if calls.get(pos, []) != schedule(iv, N):
                lead = leading_zero(case)
                out.append(("split:step0-repeated:no-logger" if lead and calls.get(pos, [])[:2] == [0, 0] else
                            f"schedule:{'pos' if iv > 0 else 'neg'}:no-logger",
                            f"observer {pos} interval {iv}: called at {calls.get(pos, [])}, expected {schedule(iv, N)} ({case['segs']})"))
        un = obs["unsplit"]
        for k in ("step_count", "atoms", "executed", "traj", "trace"):
            if obs[k] != un[k]:
                out.append((f"split:differs:{k}:no-logger", f"{case['segs']} vs unsplit run({N})"))
        return out

    def classify(self, case, obs):
        return f"{case['driver']}:{case['entry']}:{'zero@0' if leading_zero(case) else 'other'}"


class LazyPropertySplit(common.Suite):
    """a calculator that computes a property only when somebody asks for it (stress, like most first-principles codes),
    a logger that asks for it every few steps, a trajectory written every step: the files of `run(a); run(b)` are those of
    `run(a + b)` — what an observer requested between two runs must not change what a later rejected trial restores. Oracle
    only (the run-loop model has no calculator; the results-dictionary machine RDict carries the theorem `runStart_keeps`)."""

    name = "lazy-property-split"

    def cases(self, rng, tier):
        n = 40 if tier == "quick" else 400
        for _ in range(n):
            logint = rng.choice([2, 3, 3, 4])
            # most cuts right after a step the logger wrote (that is when the observer has just asked for the property)
            cut = logint * rng.randint(1, 2) if rng.random() < 0.75 else rng.randint(1, 7)
            segs = [cut, rng.randint(1, 4)]
            if rng.random() < 0.3:
                segs.insert(rng.randint(0, 2), 0)
            yield {"segs": segs, "logint": logint, "seed": rng.randrange(1, 2**31),
                   "T": rng.choice([1.0, 10.0, 10.0, 300.0, 3000.0]), "driver": rng.choice(["can", "can", "gc"])}

    def observe(self, case, segs):
        import numpy as np
        import quansino.mc  # noqa: F401
        from ase import Atoms
        from ase.build import bulk
        from ase.calculators.calculator import Calculator, all_changes
        from quansino.io.logger import Logger
        from quansino.io.trajectory import TrajectoryObserver
        from quansino.mc.canonical import Canonical
        from quansino.mc.gcmc import GrandCanonical
        from quansino.moves.displacement import DisplacementMove
        from quansino.moves.exchange import ExchangeMove
        from quansino.operations.displacement import Ball

        class LazyStress(Calculator):
            implemented_properties = ["energy", "forces", "stress"]  # noqa: RUF012

            def calculate(self, atoms=None, properties=None, system_changes=all_changes):
                super().calculate(atoms, properties, system_changes)
                d = self.atoms.get_positions() - 1.7
                self.results = {"energy": 0.05 * float((d * d).sum()), "forces": -0.1 * d}
                if properties and "stress" in properties:
                    self.results["stress"] = np.array([float((d[:, i] * d[:, j]).sum()) for i, j in
                                                       ((0, 0), (1, 1), (2, 2), (1, 2), (0, 2), (0, 1))]) * 1e-3

        atoms = bulk("Cu", cubic=True)
        atoms.rattle(0.05, seed=1)
        atoms.calc = LazyStress()
        log, traj = io.StringIO(), io.StringIO()
        logger = Logger(log, interval=case["logint"])
        kw = dict(seed=case["seed"], max_cycles=1, logfile=logger, trajectory=TrajectoryObserver(atoms, traj, interval=1))
        with warnings.catch_warnings():
            warnings.simplefilter("ignore")
            if case["driver"] == "can":
                sim = Canonical(atoms, temperature=case["T"],
                                default_displacement_move=DisplacementMove(np.arange(len(atoms)), Ball(0.5)), **kw)
            else:
                sim = GrandCanonical(atoms, Atoms("Cu"), temperature=case["T"], chemical_potential=0.0,
                                     number_of_exchange_particles=len(atoms),
                                     default_exchange_move=ExchangeMove(np.arange(len(atoms))),
                                     default_displacement_move=DisplacementMove(np.arange(len(atoms)), Ball(0.5)), **kw)
            logger.add_stress_fields(atoms)
            for n in segs:
                sim.run(n)
        frames = [ln for ln in traj.getvalue().splitlines() if "Lattice" in ln]
        return {"log": log.getvalue(), "traj": traj.getvalue(), "stress_in_frame": ["stress=" in ln for ln in frames]}

    def real(self, case):
        a = self.observe(case, case["segs"])
        b = self.observe(case, [sum(case["segs"])])
        return {"log_equal": a["log"] == b["log"], "traj_equal": a["traj"] == b["traj"],
                "split": a["stress_in_frame"], "unsplit": b["stress_in_frame"]}

    def oracle(self, case, obs):
        if "exception" in obs:
            return [("lazy-split:exception:" + obs["exception"], obs.get("message", "") + obs.get("trace", "")[-400:])]
        out = []
        if not obs["log_equal"]:
            out.append(("lazy-split:log-differs", f"segments {case['segs']}"))
        if not obs["traj_equal"]:
            out.append(("lazy-split:trajectory-differs",
                        f"segments {case['segs']}: frames carrying the lazily computed property: split {obs['split']} vs one run {obs['unsplit']}"))
        return out

    def classify(self, case, obs):
        return f"{case['driver']}:log={case['logint']}"


class UnsetDefaultObserver(common.Suite):
    """`sim.default_logger = None` (documented: "None to unset") before a run: no logger, hence no header and NO ROWS — rows
    without the header that precedes them are not a log. The same for the default trajectory and restart observers: an
    observer that was unset is not called any more. Oracle only."""

    name = "unset-default-observer"

    def cases(self, rng, tier):
        for driver in ("can", "fb"):
            for which in ("default_logger", "default_trajectory", "default_restart"):
                if driver == "fb" and which == "default_restart":
                    continue
                for when in ("before-first-run", "between-runs"):
                    for action in ("unset", "replace"):
                        yield {"driver": driver, "which": which, "when": when, "action": action, "seed": rng.randrange(1, 2**31)}

    def real(self, case):
        E = env()
        np = E["np"]
        atoms = E["bulk"]("Cu", cubic=True)
        atoms.calc = E["Harm"]()
        files = {"default_logger": io.StringIO(), "default_trajectory": io.StringIO(), "default_restart": io.StringIO()}
        kw = dict(logfile=files["default_logger"], trajectory=files["default_trajectory"], logging_interval=1, seed=case["seed"])
        with warnings.catch_warnings():
            warnings.simplefilter("ignore")
            if case["driver"] == "can":
                sim = E["Can"](atoms, temperature=300.0, restart_file=files["default_restart"],
                               default_displacement_move=E["DisplacementMove"](np.arange(len(atoms))), **kw)
            else:
                sim = E["FB"](atoms, delta=0.05, temperature=300.0, **kw)
            sim._executed = []
            if case["when"] == "between-runs":
                sim.run(2)
            size0 = len(files[case["which"]].getvalue())
            fresh = io.StringIO()
            # the default observer is set a second time (to nothing, or to another file): the old one is out of the game
            setattr(sim, case["which"], None if case.get("action", "unset") == "unset" else fresh)
            sim.run(2)
        text = files[case["which"]].getvalue()
        others = {k: len(v.getvalue()) for k, v in files.items() if k != case["which"]}
        return {"grew": len(text) - size0, "size0": size0, "still_attached": case["which"] in sim.file_manager.observers,
                "others": others, "fresh": len(fresh.getvalue()),
                "fresh_first_line": fresh.getvalue().split("\n")[0][:40]}

    def oracle(self, case, obs):
        if "exception" in obs:
            return [("unset:exception:" + obs["exception"], obs.get("message", "") + obs.get("trace", "")[-300:])]
        out = []
        if case.get("action") == "replace" and obs["fresh"] == 0:
            out.append((f"unset:{case['which']}:replacement-never-written:{case['when']}",
                        f"{case['driver']}: the observer set in place of the old one wrote nothing in 2 steps"))
        if obs["grew"] != 0:
            out.append((f"unset:{case['which']}:still-written:{case['when']}",
                        f"{case['driver']}: after `sim.{case['which']} = None` the file grew by {obs['grew']} bytes "
                        f"(observer still attached: {obs['still_attached']})"))
        return out

    def classify(self, case, obs):
        return f"{case['driver']}:{case['which']}:{case['when']}:{case.get('action')}"


def suites(tier):
    return [RunSplit(), NoLoggerSplit(), fbd.SplitView(), LazyPropertySplit(), UnsetDefaultObserver()]
