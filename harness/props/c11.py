"""C11 — a displacement move moves only the chosen particle (DESIGN §6 C11)."""
from __future__ import annotations

import common
import machine
from props import c03

ID = "C11"
LEAN_MODULES = ["QProps.C11"]
THEOREMS = [
    "MM.disp_changes_only_selected",
    "MM.negative_never_moved",
    "MM.preselected_ineligible_fails",
    "MM.pinned_preselected_negative_moves",
    "MM.disp_no_candidate_fails",
    "MM.disp_fixed_stays",
    "MM.composite_no_repeat",
    "MM.composite_reports_count",
    "MM.composite_count",
    "MM.dispCall_spec",
    "MM.attemptLoop_spec",
    "MM.applyDisp_untouched",
]
RULE = ("accepted scripted displacement trials (bare DisplacementMove, CompositeDisplacementMove via + and *, pre-selected and "
        "random targets) on real Canonical/GrandCanonical objects with negative/repeated/non-contiguous/unsorted label arrays and "
        "FixAtoms; non-trivial = an accepted displacement that moved at least one atom, or a failed one; distinct = distinct histories")
ASSUMPTIONS = c03.ASSUMPTIONS + ["composite members share one labelling (DESIGN §9.1)"]


def moved_rows(b, a):
    pb, pa = b["arrays"]["positions"][1], a["arrays"]["positions"][1]
    if len(pb) != len(pa):
        return None
    return {i: [pa[i][j] - pb[i][j] for j in range(3)] for i in range(len(pb)) if pa[i] != pb[i]}


def locality_violations(case, obs):
    out = []
    for k, o in enumerate(obs["outcomes"]):
        tr = case["trials"][k]
        ent = next(e for e in case["table"] if e["name"] == tr["name"])
        tree = ent["tree"]
        refs = machine.tree_refs(tree)
        kinds = {case["objs"][r]["kind"] for r in refs}
        if kinds != {"disp"} or tree[0] == "P":
            continue
        ts = c03.trial_sig(case, k)
        b, a = obs["before"][k], obs["after"][k]
        ex = obs["extra"][k]
        if o != "T":
            continue  # restoration of rejected / failed trials is C03's oracle
        mv = moved_rows(b, a)
        if mv is None:
            out.append((f"disp:atom-count-changed:{ts}", f"trial {k}"))
            continue
        for key in ("cell", "fixed"):
            if a[key] != b[key]:
                out.append((f"disp:{key}-changed:{ts}", f"trial {k}"))
        others = {n: v for n, v in a["arrays"].items() if n != "positions"}
        if others != {n: v for n, v in b["arrays"].items() if n != "positions"}:
            out.append((f"disp:other-array-changed:{ts}", f"trial {k}"))
        fixed = set(b["fixed"] or [])
        if tree[0] == "L":
            r = tree[1]
            sel = ex["displaced"][r]
            labels = b["labels"][r]
            if sel is None:
                out.append((f"disp:no-displaced-label-after-success:{ts}", f"trial {k}"))
                continue
            chosen = {i for i, l in enumerate(labels) if l == sel}
            presel = any(p[0] == r and p[1] == "D" for p in tr.get("presel", []))
            how = "pre-selected" if presel else "drawn"
            if sel < 0:
                out.append((f"disp:negative-label-selected:{how}:{ts}", f"trial {k}: label {sel} ({how}) was displaced"))
            if not chosen:
                out.append((f"disp:success-without-eligible-particle:{how}:{ts}",
                            f"trial {k}: label {sel} ({how}) is carried by no atom, yet the move reported success"))
            extra_moved = set(mv) - chosen
            if extra_moved:
                out.append((f"disp:other-atom-moved:{ts}", f"trial {k}: selected label {sel} (atoms {sorted(chosen)}), moved {sorted(mv)}"))
            constr = case["objs"][r]["apply_constraints"]
            free = {i for i in chosen if not (constr and i in fixed)}
            vecs = {tuple(mv.get(i, [0, 0, 0])) for i in free}
            if len(vecs) > 1:
                out.append((f"disp:particle-not-moved-rigidly:{ts}", f"trial {k}: atoms {sorted(free)} moved by {sorted(vecs)}"))
            if constr and any(i in mv for i in fixed):
                out.append((f"disp:fixed-atom-moved:{ts}", f"trial {k}"))
        elif tree[0] == "D":
            comp = ex["comp"].get(str(ent["oid"]))
            if comp is None:
                continue
            dl = [x for x in comp["displaced"] if x is not None]
            if len(dl) != len(set(dl)):
                out.append((f"compdisp:same-particle-twice:{ts}", f"trial {k}: displaced labels {comp['displaced']}"))
            if comp["nmoved"] != len(dl):
                out.append((f"compdisp:count-report:{ts}", f"trial {k}: reports {comp['nmoved']} for {comp['displaced']}"))
            labelsets = {tuple(b["labels"][r]) for r in refs}
            if len(labelsets) == 1:
                labels = b["labels"][refs[0]]
                chosen = {i for i, l in enumerate(labels) if l in dl}
                extra_moved = set(mv) - chosen
                if extra_moved:
                    out.append((f"compdisp:other-atom-moved:{ts}", f"trial {k}: displaced {dl}, moved atoms {sorted(mv)}"))
                if any(l < 0 for l in dl):
                    out.append((f"compdisp:negative-label-selected:{ts}", f"trial {k}: {dl}"))
                # no veto in this trial => moved = min(n, eligible)
                nattempts = obs["consumed"][k][2]
                vetoes = sum(1 for c in tr["checks"][:nattempts] if not c)
                if vetoes == 0:
                    eligible = len({l for l in labels if l >= 0})
                    if len(dl) != min(len(refs), eligible):
                        out.append((f"compdisp:count:{ts}", f"trial {k}: moved {len(dl)} particles, n={len(refs)}, eligible={eligible}"))
    return out


class DispHistories(c03.Histories):
    name = "displacement-histories"

    def cases(self, rng, tier):
        n = 1000 if tier == "quick" else 15000
        for i in range(n):
            ens = "canonical" if i % 3 else "grand"
            case = machine.gen_case(rng, ens, tier)
            for tr in case["trials"]:
                if rng.random() < 0.8:
                    tr["verdict"] = True
                if rng.random() < 0.5:
                    tr["checks"] = [True] * len(tr["checks"])
            yield case

    def oracle(self, case, obs):
        out = []
        if "exception" in obs:
            k = obs.get("exception_at")
            ts = c03.trial_sig(case, k) if k is not None else case["ens"] + ":setup"
            out.append((f"exception:{ts}:{obs['exception']}", f"trial {k}: " + obs["message"] + obs.get("trace", "")[-600:]))
        if "outcomes" in obs:
            out += locality_violations(case, obs)
        return out

    def classify(self, case, obs):
        if "outcomes" not in obs:
            return "exception"
        keys = set()
        for k, o in enumerate(obs["outcomes"]):
            tr = case["trials"][k]
            ent = next(e for e in case["table"] if e["name"] == tr["name"])
            kinds = {case["objs"][r]["kind"] for r in machine.tree_refs(ent["tree"])}
            if kinds == {"disp"}:
                keys.add(ent["tree"][0] + o)
        return "+".join(sorted(keys)) if keys else None


def suites(tier):
    return [DispHistories()]
