"""C13 — force-bias steps are bounded and follow the published (Bal–Neyts) density (DESIGN §6 C13).

Suites
* `fb-step`     real `ForceBias.step()` / `run(1)` on a prescribed-forces calculator with a recording generator,
                tied to the Lean model (`fbstep`) on gamma, zeta, momenta (= m * displacement), new positions,
                number of rounds, numbers drawn, the order of `Atoms` calls; oracle: bound, one `set_positions`,
                `step_count` untouched by `step()`, termination.
* `fb-prob`     real `calculate_gamma` + `calculate_trial_probability` on a (gamma, zeta) grid tied to the `Float`
                model (`fbgamma`, `fbprob`); oracle: clip, 0 <= P <= 1, P = published density (expm1 form).
* `fb-density`  many coordinates with one force: Kolmogorov–Smirnov distance of the sampled zeta to the published
                density (search aid: reports only when overwhelmingly significant on three seeds), sign of the mean.
"""
from __future__ import annotations

import math

import common

ID = "C13"
LEAN_MODULES = ["QProps.C13"]
THEOREMS = [
    "FB.P_eq_BalNeyts",
    "FB.P_nonneg",
    "FB.P_le_one",
    "FB.P_integral_one",
    "FB.accept_half",
    "FB.P_favours_force",
    "FB.P_favours_force_neg",
    "FB.mean_zeta",
    "FB.mean_zeta_increasing",
    "FB.mean_zeta_odd",
    "FB.gamma_zero_uniform",
    "FB.trialProb_den_zero",
    "FB.gamma_clipped",
    "FB.gamma_value",
    "FB.disp_bound",
    "FB.disp_le_delta",
    "FB.loop_terminates",
    "FB.step_terminates",
    "FB.loop_zeta_from_script",
    "FB.one_position_update",
    "FB.step_zeta_bounded",
    "FB.step_disp_bounded",
]
RULE = (
    "ForceBias on 1-6 atoms (thorough: up to 12) of elements H..U with prescribed forces per coordinate drawn from "
    "{exact 0, rounding level 1e-12..1e-8, 1e-4..1e2, 1e3..1e12} eV/A with random signs, delta scalar or per-coordinate "
    "in [1e-3,1], T in [1,1e4] K, masses_scaling_power float/array/dict in [0,1], step() or run(1), recorded PCG64 draws "
    "with edge values injected (zeta in {0,-1,1-2^-52,+-2^-52}, u in {0,2^-53,1-2^-53}); (gamma,zeta) grid of "
    "calculate_trial_probability; non-trivial = every case (each performs a full step or a grid row)"
)
ASSUMPTIONS = [
    "forces are finite, masses > 0 (H..U), no constraint attached (the bound clause excludes constraints)",
    "Float model uses libm exp/pow; numpy's SIMD exp differs by 1 ulp in ~5% of arguments: decisions P>u closer than "
    "2e-15*(2+coth|gamma|) are marked fragile by the model driver and only gamma is compared for such a case",
    "T in [1, 1e4] K is generated; 2*T*kB must not underflow to 0 (T < 3e-320 K with an exactly zero force gives "
    "gamma = 0/0 = NaN and a loop that never ends: outside the checked domain, reported in the builder notes)",
    "behaviour of the quotient for |gamma| at rounding level is not tied (bound, termination, 0<=P<=1 still checked)",
]

GMAX = 709.782712
EPS = 2.0 ** -52
ZETA_EDGES = [0.0, -1.0, 1.0 - EPS, EPS, -EPS, 0.5, -0.5]
U_EDGES = [0.0, 2.0 ** -53, 1.0 - 2.0 ** -53]
ROUND_BUDGET = 400  # P(rounds > k) = 2^-k per coordinate (theorem accept_half); 400 is never reached
EFFECTS = ["get_forces", "get_positions", "set_momenta", "get_momenta", "set_positions", "get_potential_energy"]


STATS = {"steps_tied": 0, "fragile_decision_gamma_only": 0, "rounds_max": 0, "draws_replayed": 0}


def extra_coverage(res):
    return {"fb_step_tie": dict(STATS)}


class RoundBudget(Exception):
    pass


class Recorder:
    """stands in for `fb._rng`: a real numpy Generator whose every returned array is logged (optionally with
    edge values written into it first). A draw method it does not know is logged in `unknown`."""

    def __init__(self, gen, inject_rng=None, p_inject=0.0, stubborn=0):
        self._gen = gen
        self._inj = inject_rng
        self._p = p_inject
        self._stubborn = stubborn  # so many rounds in a row the first pending coordinate draws u = 1 - 2^-53 (rejected)
        self.log = []  # (method, flat list of returned numbers)
        self.unknown = []

    def _edge(self, arr, edges):
        if self._inj is None or self._p <= 0:
            return arr
        flat = arr.reshape(-1)
        for i in range(flat.size):
            if self._inj.random() < self._p:
                flat[i] = self._inj.choice(edges)
        return arr

    def uniform(self, low=0.0, high=1.0, size=None):
        import numpy as np

        if (low, high) != (-1, 1) or size is None:
            self.unknown.append(f"uniform({low},{high},{size})")
        if sum(1 for m, _ in self.log if m == "uniform") > ROUND_BUDGET:
            raise RoundBudget()
        arr = np.array(self._gen.uniform(low, high, size), dtype=float, ndmin=1)
        arr = self._edge(arr, ZETA_EDGES)
        self.log.append(("uniform", [float(x) for x in arr.reshape(-1)]))
        return arr

    def random(self, size=None):
        import numpy as np

        if size is None:
            self.unknown.append("random(None)")
        arr = np.array(self._gen.random(size), dtype=float, ndmin=1)
        arr = self._edge(arr, U_EDGES)
        if self._stubborn > 0 and arr.size:
            # a coordinate that is rejected round after round (probability 2^-k, so a plain run never shows it): the loop has
            # to go on until IT is accepted — there is no number of rounds after which an unfiltered draw may be kept
            arr.reshape(-1)[0] = 1.0 - 2.0 ** -53
            self._stubborn -= 1
        self.log.append(("random", [float(x) for x in arr.reshape(-1)]))
        return arr

    @property
    def bit_generator(self):
        return self._gen.bit_generator

    def __getattr__(self, name):
        if name.startswith("__"):
            raise AttributeError(name)
        self.unknown.append(name)
        return getattr(self._gen, name)


def make_calc(forces, dtype="float64"):
    import numpy as np
    from ase.calculators.calculator import Calculator, all_changes

    class PrescribedForces(Calculator):
        implemented_properties = ["energy", "forces"]  # noqa: RUF012

        def __init__(self, f):
            super().__init__()
            # machine-learned potentials hand out single-precision forces: finite forces are finite forces
            self.f = np.array(f, dtype=dtype)

        def calculate(self, atoms=None, properties=("energy",), system_changes=all_changes):
            super().calculate(atoms, properties, system_changes)
            self.results = {"energy": 0.0, "forces": self.f.copy()}

    return PrescribedForces(forces)


def build(case):
    """atoms + ForceBias of a case, generator replaced by a Recorder; returns (fb, atoms, recorder, trace)"""
    import warnings

    import numpy as np
    import quansino.mc  # noqa: F401  (import order: see C08)
    from ase import Atoms
    from quansino.mc.fbmc import ForceBias

    atoms = Atoms(case["symbols"], positions=np.array(case["positions"], dtype=float))
    if case.get("masses") is not None:
        atoms.set_masses(case["masses"])
    atoms.calc = make_calc(case["forces"], case.get("fdtype", "float64"))
    delta = case["delta"]
    if isinstance(delta, list):
        delta = np.array(delta, dtype=float)
    with warnings.catch_warnings():
        warnings.simplefilter("ignore")  # "No FixCom constraint found"
        fb = ForceBias(atoms, delta, float(case["T"]), seed=int(case["seed"]))
    if case.get("power_first"):
        # an EARLIER assignment (every element named, other powers): the last assignment decides, nothing of this one stays
        fb.masses_scaling_power = {k: float(v) for k, v in case["power_first"].items()}
    pw = case["power"]
    if pw["kind"] == "float":
        fb.masses_scaling_power = float(pw["value"])
    elif pw["kind"] == "npfloat":
        fb.masses_scaling_power = np.float64(pw["value"])
    elif pw["kind"] == "int":
        fb.masses_scaling_power = int(pw["value"])
    elif pw["kind"] == "npint":
        fb.masses_scaling_power = np.int64(pw["value"])
    elif pw["kind"] == "array":
        fb.masses_scaling_power = np.array(pw["value"], dtype=float)
    elif pw["kind"] == "dict":
        fb.masses_scaling_power = {k: float(v) for k, v in pw["value"].items()}
    inj = None
    if case.get("inject", 0) > 0:
        inj = common.sub_rng(int(case["seed"]), "inject")
    rec = Recorder(np.random.Generator(np.random.PCG64(int(case["seed"]))), inj, case.get("inject", 0),
                   stubborn=int(case.get("stubborn", 0)))
    common.set_rng(fb, rec)
    trace = []
    depth = [0]

    def wrap(name):
        orig = getattr(atoms, name)

        def f(*a, **k):
            if depth[0] == 0:
                trace.append(name)
            depth[0] += 1
            try:
                return orig(*a, **k)
            finally:
                depth[0] -= 1

        setattr(atoms, name, f)

    for name in [*EFFECTS, "set_scaled_positions", "set_cell", "set_velocities", "translate", "rattle"]:
        wrap(name)
    return fb, atoms, rec, trace


def power_array(case, natoms):
    """masses_scaling_power per coordinate, as the property text reads it (independent of the model)"""
    pw = case["power"]
    if pw["kind"] in ("float", "npfloat", "int", "npint"):
        return [float(pw["value"])] * (3 * natoms)
    if pw["kind"] == "array":
        return [float(x) for row in pw["value"] for x in row]
    if pw["kind"] == "dict":
        return [float(pw["value"].get(s, 0.25)) for s in case["symbols"] for _ in range(3)]
    return [0.25] * (3 * natoms)


def delta_array(case, natoms):
    d = case["delta"]
    if isinstance(d, list):
        return [float(x) for row in d for x in row]
    return [float(d)] * (3 * natoms)


def ulp(x):
    return math.ulp(abs(x)) if x != 0 else 5e-324


class FBStep(common.Suite):
    name = "fb-step"

    def __init__(self):
        self._last = None

    # ------------------------------------------------------------------ generator
    def force(self, rng, kind):
        s = rng.choice([-1.0, 1.0])
        if kind == "z":
            return rng.choice([0.0, 0.0, -0.0])
        if kind == "r":
            return s * 10.0 ** rng.uniform(-12, -8)
        if kind == "n":
            return s * 10.0 ** rng.uniform(-4, 2)
        return s * 10.0 ** rng.uniform(3, 12)

    def cases(self, rng, tier):
        from ase.data import chemical_symbols

        n = 1200 if tier == "quick" else 20000
        for i in range(n):
            nat = rng.randint(1, 6 if tier == "quick" else 12)
            symbols = [chemical_symbols[rng.randint(1, 92)] for _ in range(nat)]
            if rng.random() < 0.3:  # repeated elements (dict powers, equal masses)
                symbols = [rng.choice(symbols[: max(1, nat // 2)]) for _ in range(nat)]
            rounding = rng.random() < 0.15
            mix = rng.choice(["zn", "znc", "n", "c", "nc", "z", "zc"])
            if rounding:
                mix += "r"
            forces = [[self.force(rng, rng.choice(mix)) for _ in range(3)] for _ in range(nat)]
            fdtype = "float32" if rng.random() < 0.15 else "float64"
            if fdtype == "float32":
                import numpy as _np

                # single-precision forces: the values themselves are made exactly representable (and finite) in float32
                forces = [[float(_np.float32(max(-3e38, min(3e38, x)))) for x in row] for row in forces]
            if rng.random() < 0.5:
                delta = 10.0 ** rng.uniform(-3, 0)
            else:
                delta = [[10.0 ** rng.uniform(-3, 0) for _ in range(3)] for _ in range(nat)]
            r = rng.random()
            if r < 0.15:
                power = {"kind": "default", "value": 0.25}
            elif r < 0.45:
                power = {"kind": rng.choice(["float", "npfloat"]), "value": rng.choice([0.0, 1.0, 0.5, rng.random()])}
                if rng.random() < 0.25:   # the powers 0 and 1 written as integers (Python or numpy)
                    power = {"kind": rng.choice(["int", "npint"]), "value": rng.choice([0, 1])}
            elif r < 0.75:
                power = {"kind": "array", "value": [[rng.choice([0.0, 1.0, rng.random()]) for _ in range(3)] for _ in range(nat)]}
            else:
                els = sorted(set(symbols))
                power = {"kind": "dict", "value": {e: rng.choice([0.0, 1.0, rng.random()]) for e in els if rng.random() < 0.8}}
            power_first = None
            if power is not None and power["kind"] in ("dict", "float") and rng.random() < 0.4:
                power_first = {e: rng.choice([0.0, 1.0, 0.6, rng.random()]) for e in sorted(set(symbols))}
            masses = None
            if rng.random() < 0.2:
                masses = [rng.uniform(1.0, 240.0) for _ in range(nat)]
            scale = rng.choice([1.0, 10.0, 1000.0])
            yield {
                "symbols": symbols,
                "positions": [[rng.uniform(-1, 1) * scale for _ in range(3)] for _ in range(nat)],
                "masses": masses,
                "forces": forces,
                "delta": delta,
                "T": 10.0 ** rng.uniform(0, 4),
                "power": power,
                "power_first": power_first,
                "seed": rng.randint(1, 2**31 - 1),
                "inject": rng.choice([0, 0, 0.02, 0.2]),
                "stubborn": rng.choice([0, 0, 0, 0, 18, 40]),
                "fdtype": fdtype,
                "via": "run" if rng.random() < 0.2 else "step",
            }

    # ------------------------------------------------------------------ real code
    def real(self, case):
        import numpy as np

        self._last = None
        fb, atoms, rec, trace = build(case)
        p0 = atoms.get_positions().copy()
        masses = np.array(fb.shaped_masses, dtype=float)
        del trace[:]
        inner = fb.step
        counts = []

        def step_wrapper():
            before = fb.step_count
            out = inner()
            counts.append((before, fb.step_count))
            return out

        fb.step = step_wrapper
        sc0 = fb.step_count
        terminated = True
        try:
            if case["via"] == "run":
                fb.run(1)
            else:
                fb.step()
        except RoundBudget:
            terminated = False
        sc1 = fb.step_count
        obs = {
            "terminated": terminated,
            "rounds": sum(1 for m, _ in rec.log if m == "uniform") - 1,
            "used": sum(len(v) for _, v in rec.log),
            "unknown_draws": list(rec.unknown),
            "draw_calls": [m for m, _ in rec.log][:8],
            "trace": list(trace),
            "set_positions_calls": trace.count("set_positions"),
            "step_count_by_step": [b - a for a, b in counts],
            "step_count_delta": sc1 - sc0,
            "masses": [float(x) for x in masses.reshape(-1)],
            # the configured step length is a setting: a step reads it and leaves it as it was (also when it is an array)
            "delta_kept": bool(np.array_equal(np.broadcast_to(np.asarray(fb.delta, dtype=float), (len(atoms), 3)),
                                              np.broadcast_to(np.asarray(case["delta"], dtype=float), (len(atoms), 3)))),
        }
        # the last rejection round as drawn: (zeta, u) of every coordinate that was still pending when the loop ended
        unis = [v for m, v in rec.log if m == "uniform"]
        rnds = [v for m, v in rec.log if m == "random"]
        if unis and rnds and len(unis[-1]) == len(rnds[-1]):
            obs["last_round"] = [list(unis[-1]), list(rnds[-1])]
        if terminated:
            p1 = atoms.get_positions()
            obs.update({
                "gamma": [float(x) for x in np.array(fb.gamma, dtype=float).reshape(-1)],
                "zeta": [float(x) for x in np.array(fb.zeta, dtype=float).reshape(-1)],
                "momenta": [float(x) for x in atoms.get_momenta().reshape(-1)],
                "oldpos": [float(x) for x in p0.reshape(-1)],
                "newpos": [float(x) for x in p1.reshape(-1)],
            })
            self._last = (id(case), [x for _, v in rec.log for x in v])
        return obs

    # ------------------------------------------------------------------ model
    def model_lines(self, case):
        if self._last is None or self._last[0] != id(case):
            return []
        script = self._last[1]
        nat = len(case["symbols"])
        import numpy as np
        from ase import Atoms
        from ase.units import kB

        if case.get("masses") is not None:
            m = [float(x) for x in case["masses"]]
        else:
            m = [float(x) for x in Atoms(case["symbols"]).get_masses()]
        masses = [x for x in m for _ in range(3)]
        forces = [float(x) for row in case["forces"] for x in row]
        pos = [float(x) for x in np.array(case["positions"], dtype=float).reshape(-1)]
        return [" ".join([
            "fbstep", common.fbits(float(case["T"]) * kB), common.fl(forces), common.fl(delta_array(case, nat)),
            common.fl(masses), common.fl(power_array(case, nat)), common.fl(pos), common.fl(script)])]

    def model_obs(self, case, outs):
        w = outs[0].split()
        if w[0] != "ok":
            return {"status": w[0], "fragile": len(w) > 1 and w[1] == "true"}
        return {
            "status": "ok",
            "gamma": common.lf(w[1]), "zeta": common.lf(w[2]), "momenta": common.lf(w[3]), "newpos": common.lf(w[4]),
            "rounds": int(w[5]), "used": int(w[6]), "trace": w[7].split(","), "step_count_by_step": int(w[8]),
            "fragile": w[9] == "true",
        }

    def compare(self, case, real, model):
        if "exception" in real:
            return [f"real code raised {real['exception']}: {real.get('message')}"]
        diffs = []
        if real["unknown_draws"]:
            diffs.append(f"generator used in a way the script model does not know: {real['unknown_draws'][:5]}")
        if not real["terminated"]:
            return [*diffs, "real step did not terminate within the round budget"]
        if model["status"] != "ok":
            if model["fragile"]:  # a decision within rounding noise went the other way: nothing further to compare
                STATS["steps_tied"] += 1
                STATS["fragile_decision_gamma_only"] += 1
                return diffs
            return [*diffs, f"model: {model['status']} on the recorded script, real code returned"]

        def cmp(key, rel, abs_=0.0):
            a, b = real[key], model[key]
            if len(a) != len(b):
                diffs.append(f"{key}: length {len(a)} vs {len(b)}")
                return
            for i, (x, y) in enumerate(zip(a, b)):
                if not common.close(x, y, rel, abs_):
                    diffs.append(f"{key}[{i}]: real={x!r} model={y!r}")
                    return

        cmp("gamma", 1e-12)
        STATS["steps_tied"] += 1
        STATS["fragile_decision_gamma_only"] += int(model["fragile"])
        STATS["rounds_max"] = max(STATS["rounds_max"], real["rounds"])
        STATS["draws_replayed"] += real["used"]
        if real["trace"] != model["trace"]:
            diffs.append(f"order of Atoms calls: real={real['trace']} model={model['trace']}")
        if real["step_count_by_step"] != [model["step_count_by_step"]]:
            diffs.append(f"step_count change inside step(): real={real['step_count_by_step']} model={model['step_count_by_step']}")
        if model["fragile"]:
            return diffs
        cmp("zeta", 1e-12)
        cmp("momenta", 1e-12)
        cmp("newpos", 1e-12)
        for key in ("rounds", "used"):
            if real[key] != model[key]:
                diffs.append(f"{key}: real={real[key]} model={model[key]}")
        return diffs

    # ------------------------------------------------------------------ property on the real code
    def oracle(self, case, obs):
        if "exception" in obs:
            return [("step:exception:" + obs["exception"], obs.get("message", ""))]
        out = []
        if not obs["terminated"]:
            return [("step:no-termination", f"more than {ROUND_BUDGET} rejection rounds")]
        nat = len(case["symbols"])
        if obs["set_positions_calls"] != 1:
            out.append((f"step:set-positions-calls:{obs['set_positions_calls']}", f"Atoms calls: {obs['trace']}"))
        if any(d != 0 for d in obs["step_count_by_step"]) or len(obs["step_count_by_step"]) != 1:
            out.append(("step:step-count-touched", f"step_count change inside step(): {obs['step_count_by_step']}"))
        if obs.get("delta_kept") is False:
            out.append(("step:delta-changed", "the step changed the configured delta (an array multiplied in place?)"))
        if obs["step_count_delta"] != (1 if case["via"] == "run" else 0):
            out.append(("step:step-count-driver", f"step_count changed by {obs['step_count_delta']} via {case['via']}"))
        m = obs["masses"]
        mmin = min(m)
        ds = delta_array(case, nat)
        ps = power_array(case, nat)
        for i in range(3 * nat):
            bound = ds[i] * math.pow(mmin / m[i], ps[i])
            disp = obs["momenta"][i] / m[i]
            dx = obs["newpos"][i] - obs["oldpos"][i]
            if not abs(disp) <= bound * (1 + 1e-12):
                out.append(("step:bound:displacement", f"coordinate {i}: |{disp!r}| > {bound!r}"))
                break
            slack = 2 * ulp(max(abs(obs["newpos"][i]), abs(obs["oldpos"][i])))
            if not abs(dx) <= bound * (1 + 1e-12) + slack:
                out.append(("step:bound:position-change", f"coordinate {i}: |{dx!r}| > {bound!r}"))
                break
            if not abs(obs["zeta"][i]) <= 1.0:
                out.append(("step:bound:zeta", f"coordinate {i}: zeta={obs['zeta'][i]!r}"))
                break
            if not abs(obs["gamma"][i]) <= GMAX:
                out.append(("step:gamma-not-clipped", f"coordinate {i}: gamma={obs['gamma'][i]!r}"))
                break
        # every coordinate of the LAST round was accepted there (the loop ends when nothing is pending — not after some number
        # of rounds): its u is below the published density at its zeta; coordinates are recognised by their final zeta
        if "last_round" in obs:
            zs, us = obs["last_round"]
            for z, u in zip(zs, us):
                idx = [i for i, zi in enumerate(obs["zeta"]) if zi == z]
                if len(idx) != 1:
                    continue
                g = obs["gamma"][idx[0]]
                if 0 < abs(g) < 1e-9:
                    continue      # |F| delta / 2kT at rounding level: the coded quotient is noise there (the property's carve-out)
                ref = 1.0 if g == 0 else bal_neyts(g, z)
                if ref is None:
                    continue
                if u >= ref + 1e-9:
                    out.append(("step:kept-a-rejected-draw", f"coordinate {idx[0]}: zeta={z!r} kept with u={u!r} >= P={ref!r} "
                                                            f"(gamma={g!r}) after {obs['rounds']} rejection rounds"))
                    break
        return out

    def classify(self, case, obs):
        if "gamma" not in obs:
            return "no-result"
        cats = set()
        for g in obs["gamma"]:
            a = abs(g)
            cats.add("z" if a == 0 else "r" if a < 1e-9 else "c" if a >= GMAX else "n")
        dk = "arr" if isinstance(case["delta"], list) else "scal"
        pk = {"npfloat": "float", "default": "float", "npint": "int"}.get(case["power"]["kind"], case["power"]["kind"])
        return f"g={''.join(sorted(cats))}|d={dk}|p={pk}|{case['via']}"


def bal_neyts(g, z):
    """published density, evaluated independently of the code's form (expm1 quotients, no cancellation)"""
    if z == 0 or g == 0:
        return 0.0 if z == 0 else None
    if z > 0:
        return math.expm1(2 * g * (z - 1)) / math.expm1(-2 * g) if abs(g) < 300 else _bn_big(g, z)
    return math.expm1(2 * g * (z + 1)) / math.expm1(2 * g) if abs(g) < 300 else _bn_big(g, z)


def _bn_big(g, z):
    # |gamma| >= 300: exp(-2|gamma|) is below rounding; scale by the dominant exponential
    if g > 0:
        return 1.0 - math.exp(2 * g * (z - 1)) if z > 0 else math.exp(2 * g * z) - math.exp(-2 * g)
    return math.exp(-2 * g * (-z)) - math.exp(2 * g) if z > 0 else 1.0 - math.exp(2 * g * (z + 1))


class FBProb(common.Suite):
    name = "fb-prob"

    GAMMAS = [0.0, 1e-300, 1e-17, 6e-17, 1.2e-16, 1e-14, 1e-10, 1e-6, 1e-3, 0.1, 1.0, 5.0, 50.0, 300.0, 700.0,
              709.0, 709.782712, 710.0, 1e5, 1e300]
    ZETAS = [-1.0, -1.0 + EPS, -0.999, -0.5, -1e-3, -EPS, 0.0, EPS, 1e-3, 0.25, 0.5, 0.999, 1.0 - EPS]

    def cases(self, rng, tier):
        n = 150 if tier == "quick" else 1500
        for i in range(n):
            gs = []
            for g in self.GAMMAS:
                gs.append(g)
                gs.append(-g)
            for _ in range(20):
                gs.append(rng.choice([-1, 1]) * 10.0 ** rng.uniform(-18, 3.2))
            zs = list(self.ZETAS) + [rng.uniform(-1, 1) for _ in range(8)] + [
                rng.choice([-1, 1]) * 10.0 ** rng.uniform(-16, 0) for _ in range(4)]
            zs = [z for z in zs if -1.0 <= z < 1.0]
            g = gs[i % len(gs)] if i < len(gs) else rng.choice(gs)
            yield {"gamma_target": g, "zetas": zs, "delta": 10.0 ** rng.uniform(-3, 0), "T": 10.0 ** rng.uniform(0, 4)}

    def real(self, case):
        import numpy as np
        from ase.units import kB

        n = len(case["zetas"])
        nat = (n + 2) // 3
        c = {"symbols": ["Cu"] * nat, "positions": [[float(i), 0.0, 0.0] for i in range(nat)], "masses": None,
             "forces": [[0.0] * 3] * nat, "delta": case["delta"], "T": case["T"],
             "power": {"kind": "default"}, "seed": 1, "inject": 0}
        fb, atoms, rec, trace = build(c)
        kT = case["T"] * kB
        f = case["gamma_target"] * (2 * kT) / case["delta"]
        if not math.isfinite(f):
            f = math.copysign(1.7e308, case["gamma_target"])
        forces = np.full((nat, 3), f)
        fb.calculate_gamma(forces)
        z = np.zeros(nat * 3)
        z[:n] = case["zetas"]
        fb.zeta = z.reshape(nat, 3)
        p = fb.calculate_trial_probability()
        return {"force": float(f), "kT": float(kT),
                "gamma": float(np.array(fb.gamma).reshape(-1)[0]),
                "den": float(np.array(fb.denominator).reshape(-1)[0]),
                "P": [float(x) for x in np.array(p).reshape(-1)[:n]]}

    def model_lines(self, case):
        return []  # two-stage: needs the real gamma; see model_lines2

    def oracle(self, case, obs):
        if "exception" in obs:
            return [("prob:exception:" + obs["exception"], obs.get("message", ""))]
        out = []
        g = obs["gamma"]
        if not abs(g) <= GMAX:
            out.append(("prob:gamma-not-clipped", f"gamma={g!r} for force {obs['force']!r}"))
        want = case["gamma_target"]
        if abs(want) <= 700 and abs(want) > 1e-290 and not common.close(g, want, 1e-12):
            out.append(("prob:gamma-value", f"gamma={g!r}, F*delta/2kT={want!r}"))
        for z, p in zip(case["zetas"], obs["P"]):
            if not (0.0 <= p <= 1.0):
                out.append(("prob:outside-unit-interval", f"P(gamma={g!r}, zeta={z!r}) = {p!r}"))
                break
        if g != 0 and obs["den"] != 0:
            for z, p in zip(case["zetas"], obs["P"]):
                ref = bal_neyts(g, z)
                tol = 1e-10 + 1e-14 * (1 + 1 / abs(g))
                if abs(p - ref) > tol:
                    out.append(("prob:density-mismatch", f"P(gamma={g!r}, zeta={z!r}) = {p!r}, published density {ref!r}"))
                    break
        if g == 0:
            if any(p != 1.0 for p in obs["P"]):
                out.append(("prob:zero-gamma-not-uniform", f"P at gamma=0: {obs['P'][:5]}"))
        return out

    def classify(self, case, obs):
        if "gamma" not in obs:
            return "exception"
        a = abs(obs["gamma"])
        return ("g=0" if a == 0 else "den=0" if obs["den"] == 0 else "rounding" if a < 1e-9 else "clipped" if a >= GMAX
                else "large" if a > 30 else "normal") + ("+" if obs["gamma"] >= 0 else "-")


class FBProbTie(FBProb):
    """the same grid tied to the Float model: the runner asks for model lines right after `real`, so the real
    gamma of the case is available to them"""

    name = "fb-prob"

    def __init__(self):
        self._last = None

    def real(self, case):
        self._last = None
        obs = super().real(case)
        self._last = (id(case), obs)
        return obs

    def model_lines(self, case):
        if self._last is None or self._last[0] != id(case):
            return []
        obs = self._last[1]
        lines = [" ".join(["fbgamma", common.fbits(obs["force"]), common.fbits(case["delta"]), common.fbits(obs["kT"])])]
        for z in case["zetas"]:
            lines.append(" ".join(["fbprob", common.fbits(obs["gamma"]), common.fbits(z)]))
        return lines

    def model_obs(self, case, outs):
        w = outs[0].split()
        return {"gamma": common.bitsf(w[1]), "den": common.bitsf(w[2]),
                "P": [common.bitsf(o.split()[1]) for o in outs[1:]]}

    def compare(self, case, real, model):
        if "exception" in real:
            return [f"real code raised {real['exception']}"]
        diffs = []
        if not common.close(real["gamma"], model["gamma"], 1e-12):
            diffs.append(f"gamma: real={real['gamma']!r} model={model['gamma']!r}")
        g = real["gamma"]
        if g == 0:
            if real["P"] != model["P"]:
                diffs.append(f"P at gamma=0: real={real['P'][:4]} model={model['P'][:4]}")
            return diffs
        if (real["den"] == 0) != (model["den"] == 0):
            return diffs  # rounding level: exp implementations differ by an ulp
        coth = (1 + 1 / abs(g)) if abs(g) < 20 else 1.0
        for z, a, b in zip(case["zetas"], real["P"], model["P"]):
            if abs(a - b) > 1e-12 * max(abs(a), abs(b)) + 2e-15 * (1 + coth):
                diffs.append(f"P(gamma={g!r}, zeta={z!r}): real={a!r} model={b!r}")
                break
        return diffs


def ks_pvalue(dn, n):
    lam = (math.sqrt(n) + 0.12 + 0.11 / math.sqrt(n)) * dn
    if lam < 0.3:
        return 1.0
    s = 0.0
    for j in range(1, 101):
        s += 2 * (-1) ** (j - 1) * math.exp(-2 * j * j * lam * lam)
    return max(0.0, min(1.0, s))


class FBDensity(common.Suite):
    """search aid: sampled zeta against the published density (three seeds; reports only at p < 1e-9 on all)"""

    name = "fb-density"

    def cases(self, rng, tier):
        gs = [0.5, -0.5, 3.0, -3.0, 20.0, -20.0, 709.782712, -1e4, 0.05]
        if tier != "quick":
            gs += [rng.choice([-1, 1]) * 10.0 ** rng.uniform(-2, 3) for _ in range(30)]
        for g in gs:
            yield {"gamma_target": g, "natoms": 700 if tier == "quick" else 4000, "delta": 0.1, "T": 300.0,
                   "seeds": [rng.randint(1, 2**31 - 1) for _ in range(3)]}

    def real(self, case):
        import numpy as np
        from ase.units import kB

        nat = case["natoms"]
        f = case["gamma_target"] * 2 * case["T"] * kB / case["delta"]
        res = []
        for seed in case["seeds"]:
            c = {"symbols": ["Cu"] * nat, "positions": np.zeros((nat, 3)).tolist(), "masses": None,
                 "forces": np.full((nat, 3), f).tolist(), "delta": case["delta"], "T": case["T"],
                 "power": {"kind": "default"}, "seed": seed, "inject": 0}
            fb, atoms, rec, trace = build(c)
            try:
                fb.step()
            except RoundBudget:
                res.append({"terminated": False})
                continue
            g = float(np.array(fb.gamma).reshape(-1)[0])
            z = np.sort(np.array(fb.zeta).reshape(-1))
            n = z.size
            grid = np.linspace(-1.0, 1.0, 400001)
            fine = np.empty_like(grid)
            neg = grid < 0
            pos = grid > 0
            if abs(g) < 300:
                fine[neg] = np.expm1(2 * g * (grid[neg] + 1)) / np.expm1(2 * g)
                fine[pos] = np.expm1(2 * g * (grid[pos] - 1)) / np.expm1(-2 * g)
            else:
                fine[neg] = [_bn_big(g, float(x)) for x in grid[neg]]
                fine[pos] = [_bn_big(g, float(x)) for x in grid[pos]]
            for k in np.where(~(neg | pos))[0]:  # the value at 0 is a null set; mean of the one-sided limits for the quadrature
                fine[k] = 0.5 * (fine[k - 1] + fine[k + 1])
            cdf = np.concatenate([[0.0], np.cumsum((fine[1:] + fine[:-1]) * 0.5 * (grid[1] - grid[0]))])
            total = float(cdf[-1])
            cdf /= total
            fz = np.interp(z, grid, cdf)
            i = np.arange(1, n + 1)
            dn = float(max(np.max(i / n - fz), np.max(fz - (i - 1) / n)))
            res.append({"terminated": True, "gamma": g, "n": int(n), "ks": dn, "p": ks_pvalue(dn, n),
                        "mean_zeta": float(np.mean(z)), "norm": total, "rounds": len(rec.log) // 2 - 1})
        return {"runs": res}

    def oracle(self, case, obs):
        if "exception" in obs:
            return [("density:exception:" + obs["exception"], obs.get("message", ""))]
        runs = obs["runs"]
        out = []
        if any(not r["terminated"] for r in runs):
            return [("density:no-termination", f"gamma={case['gamma_target']}")]
        if all(r["p"] < 1e-9 for r in runs):
            out.append(("density:ks", f"gamma={runs[0]['gamma']!r}: KS distances {[r['ks'] for r in runs]} "
                                      f"(n={runs[0]['n']}), p-values {[r['p'] for r in runs]}"))
        g = runs[0]["gamma"]
        if abs(g) >= 0.5:
            # displacement along the force is favoured: mean zeta has the sign of gamma (>= 8 sigma margin)
            want = 0.5 * (1 / math.tanh(g) - 1 / g)
            if all((r["mean_zeta"] * g <= 0) for r in runs):
                out.append(("density:mean-sign", f"gamma={g!r}: mean zeta {[r['mean_zeta'] for r in runs]}, expected {want!r}"))
        return out

    def classify(self, case, obs):
        return f"gamma~{case['gamma_target']:.3g}" if abs(case["gamma_target"]) < 1e3 else "gamma-clipped"


class FBSequence(common.Suite):
    """several steps with masses / mass-scaling power / delta / temperature / forces changed through the public API
    BETWEEN steps: every step must respect the bound for the parameters in force at that step, draw from the
    simulation's generator only, and advance the configuration exactly once (a cache that is not refreshed shows here)"""

    name = "fb-sequence"

    def cases(self, rng, tier):
        n = 80 if tier == "quick" else 1500
        syms = ["H", "C", "O", "Cu", "Au", "U"]
        for _ in range(n):
            na = rng.randint(1, 4)
            symbols = [rng.choice(syms) for _ in range(na)]
            ops = []
            for _ in range(rng.randint(2, 6)):
                kind = rng.choice(["step", "step", "masses", "masses-none", "power", "delta", "temperature", "forces"])
                if kind == "masses":
                    ops.append(["masses", [rng.choice([1.0, 2.0, 12.0, 63.5, 197.0, 238.0]) * rng.uniform(0.5, 2) for _ in range(na)]])
                elif kind == "masses-none":
                    ops.append(["masses-none", [rng.uniform(1, 250) for _ in range(na)]])
                elif kind == "power":
                    ops.append(["power", rng.choice([0.0, 0.25, 0.5, 1.0, rng.uniform(0, 1)])])
                elif kind == "delta":
                    ops.append(["delta", 10 ** rng.uniform(-3, 0)])
                elif kind == "temperature":
                    ops.append(["temperature", 10 ** rng.uniform(0, 4)])
                elif kind == "forces":
                    ops.append(["forces", [[rng.choice([0.0, 1.0, -1.0]) * 10 ** rng.uniform(-3, 3) for _ in range(3)] for _ in range(na)]])
                else:
                    ops.append(["step"])
                ops.append(["step"])
            yield {"symbols": symbols, "positions": [[rng.uniform(-3, 3) for _ in range(3)] for _ in range(na)],
                   "forces": [[rng.choice([0.0, 1.0, -1.0]) * 10 ** rng.uniform(-3, 3) for _ in range(3)] for _ in range(na)],
                   "delta": 10 ** rng.uniform(-3, 0), "T": 10 ** rng.uniform(0, 4), "seed": rng.randrange(2**31),
                   "power": {"kind": "float", "value": rng.choice([0.25, 0.5, 1.0, 0.0])}, "masses": None, "ops": ops}

    def real(self, case):
        import numpy as np

        fb, atoms, rec, trace = build(case)
        out = []
        for op in case["ops"]:
            if op[0] == "masses":
                fb.update_masses(np.array(op[1], dtype=float))
            elif op[0] == "masses-none":
                atoms.set_masses(op[1])
                fb.update_masses()
            elif op[0] == "power":
                fb.masses_scaling_power = float(op[1])
            elif op[0] == "delta":
                fb.delta = float(op[1])
            elif op[0] == "temperature":
                fb.temperature = float(op[1])
            elif op[0] == "forces":
                atoms.calc.f = np.array(op[1], dtype=float)
                atoms.calc.reset()
            else:
                p0 = atoms.get_positions().copy()
                del trace[:]
                n0 = int(fb.step_count)
                fb.step()
                dx = atoms.get_positions() - p0
                m = np.broadcast_to(np.asarray(fb.shaped_masses, dtype=float), dx.shape)
                bound = float(fb.delta) * (m.min() / m) ** float(fb.masses_scaling_power)
                out.append({"dx": dx.tolist(), "bound": bound.tolist(), "set_positions": trace.count("set_positions"),
                            "step_count_changed": int(fb.step_count) != n0, "unknown_rng": list(getattr(rec, "unknown", []))})
        return {"steps": out}

    def oracle(self, case, obs):
        if "exception" in obs:
            return [("fbseq:exception:" + obs["exception"], obs["message"] + obs.get("trace", "")[-300:])]
        import numpy as np

        out = []
        for k, st in enumerate(obs["steps"]):
            dx, b = np.abs(np.array(st["dx"])), np.array(st["bound"])
            if np.any(dx > b * (1 + 1e-9) + 1e-15 * (1 + np.abs(np.array(case["positions"])).max())):
                out.append(("fbseq:bound-after-parameter-change",
                            f"step {k}: max |dx|/bound = {float((dx / b).max()):.3f} after ops {[o[0] for o in case['ops']]}"))
            if st["set_positions"] != 1:
                out.append(("fbseq:position-updates", f"step {k}: {st['set_positions']} set_positions calls"))
            if st["step_count_changed"]:
                out.append(("fbseq:step-count-touched", f"step {k}"))
        return out[:4]

    def classify(self, case, obs):
        kinds = sorted({o[0] for o in case["ops"] if o[0] != "step"})
        return "+".join(kinds) if kinds else None


def suites(tier):
    return [FBStep(), FBProbTie(), FBDensity(), FBSequence()]
