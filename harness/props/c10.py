"""C10 — proposal operations stay within their advertised geometry and are symmetric (DESIGN §6 C10).

Three suites:

* ``displacement-ops``  Ball / Sphere / Box / Translation / Rotation / TranslationRotation / CompositeOperation on real
  ``DisplacementContext`` objects over real ASE ``Atoms`` (triclinic cells, 1–12-atom groups selected through
  ``common.get_moving(context)``).  *scripted* cases replace ``context.rng`` by ``ScriptedRNG`` (the draws are the case) and
  are compared with the Lean ``Float`` model; *pcg* cases use a genuine ``Generator(PCG64(seed))`` and are checked by
  the oracle only.
* ``deformation-ops``   Isotropic / Anisotropic / Shape deformations and composites of them on real
  ``DeformationContext`` objects, all 2⁹ masks in the thorough tier.
* ``proposal-symmetry`` two-sample / odd-moment tests of "a proposal is as likely as its inverse" on the real code with
  real PCG64 streams; gated only when |z| > 8 with the same sign on three independent seeds.

The oracles evaluate the property text on the real outputs and never consult the model.
"""
from __future__ import annotations

import itertools
import math

import common

ID = "C10"
LEAN_MODULES = ["QProps.C10"]
THEOREMS = [
    "Ops.move_uses_given_operation",
    "Ops.default_operation_only_when_none",
    "Ops.composite_nil_zero",
    "Ops.pinned_replaces_empty_composite",
    "Ops.pinned_agrees_elsewhere",
    "Ops.moveLoop_mem",
    "Ops.moveLoop_bound",
    "Ops.ball_move_norm",
    "Ops.ball_norm",
    "Ops.sphere_norm",
    "Ops.box_bounds",
    "Ops.ball_symm",
    "Ops.sphere_symm",
    "Ops.box_symm",
    "Ops.translation_centroid",
    "Ops.translation_uniform",
    "Ops.translation_rigid",
    "Ops.rotation_rigid",
    "Ops.rotation_keeps_com",
    "Ops.quat_rotation",
    "Ops.rotation_sampled_rigid_com",
    "Ops.translationRotation_rigid",
    "Ops.rotation_symm",
    "Ops.euler_coded_not_symmetric",
    "Ops.composite_sum",
    "Ops.compositeMat_sum",
    "Ops.iso_scalar_identity",
    "Ops.shape_det_one",
    "Ops.deform_spd",
    "Ops.deform_symmetric",
    "Ops.mask_identity",
    "Ops.mask_kept",
    "Ops.deform_symm",
    "det_exp_of_isHermitian",
]
RULE = (
    "operation.calculate(context) of every shipped displacement / deformation operation and of composites of them, on "
    "real contexts over real ASE Atoms: groups of 1-12 atoms (random clouds, linear, coincident) inside 1-16-atom "
    "structures, triclinic / sheared / left-handed cells, step sizes log-uniform in [1e-6, 1e3], maximum strains in "
    "[1e-4, 0.5], masks: all 512 (thorough) or a spread of 40 (quick); draws scripted (uniform u in [0,1) incl. 0, 0.5 and "
    "1-2^-53; normal deviates incl. tiny and large ones) or taken from PCG64(seed). A case is non-trivial when the "
    "operation returned; distinct = distinct (operation, parameters, structure, draws). Symmetry suite: 3 seeds x N "
    "samples per operation, N = 2000 (quick) / 20000 (thorough)."
)
ASSUMPTIONS = [
    "numpy Generator.uniform(lo, hi) = lo + (hi - lo) * u for one underlying u in [0,1); standard_normal(4) hands out "
    "four independent normal deviates (ScriptedRNG implements exactly these; any other draw method breaks the tie)",
    "the matrix exponential is a parameter of the model: NormedSpace.exp in the theorems, a scaling-and-squaring Taylor "
    "series in the Float driver, scipy.linalg.expm in the code; the three are compared numerically (1e-7), not proved equal",
    "a normalised standard-normal 4-vector is Haar-uniform on unit quaternions (stated, not proved); rotation_symm "
    "uses only that the Gaussian density is even",
    "'isotropic = scalar x identity', 'shape preserves volume', 'symmetric positive definite' and 'as likely as its "
    "inverse' are read with the default (all-true) mask; with other masks only the masked-out-entries clause is demanded",
    "theorems are over the reals; IEEE rounding is covered by the tolerances of the correspondence only",
    "flip u = 1 - u maps (0,1) to itself; the point u = 0 of [0,1) is a null set (Ico =ae Ioo in QProofs/OpsMeasure.lean)",
]

SPECIES = [1, 6, 7, 8, 13, 14, 29, 47, 79]
EDGE_U = [0.0, 0.5, 1.0 - 2.0 ** -53, 2.0 ** -30, 0.25, 0.75]


# --------------------------------------------------------------------------- scripted generator


class BrokenTie(Exception):
    """the code asked the generator for something the script cannot serve (not a property violation)"""


class ScriptedRNG:
    """hands out the given numbers in the order the code asks for them; knows uniform / standard_normal / random only"""

    def __init__(self, script):
        self.s = [float(x) for x in script]
        self.pos = 0
        self.calls = []

    def _take(self, n):
        if self.pos + n > len(self.s):
            raise BrokenTie(f"script exhausted: asked for {n} more draws after {self.pos} of {len(self.s)}")
        v = self.s[self.pos:self.pos + n]
        self.pos += n
        return v

    @staticmethod
    def _count(size):
        if size is None:
            return 1
        if isinstance(size, (int,)):
            return int(size)
        n = 1
        for k in size:
            n *= int(k)
        return n

    def _shape(self, vals, size):
        import numpy as np

        if size is None:
            return float(vals[0])
        return np.array(vals, dtype=float).reshape(size)

    def uniform(self, low=0.0, high=1.0, size=None):
        n = self._count(size)
        self.calls.append(f"uniform:{n}")
        low = float(low)
        high = float(high)
        return self._shape([low + (high - low) * u for u in self._take(n)], size)

    def random(self, size=None):
        n = self._count(size)
        self.calls.append(f"random:{n}")
        return self._shape(self._take(n), size)

    def standard_normal(self, size=None):
        n = self._count(size)
        self.calls.append(f"standard_normal:{n}")
        return self._shape(self._take(n), size)

    def __getattr__(self, name):
        raise BrokenTie(f"generator method {name!r} is not scripted")


# --------------------------------------------------------------------------- case generation helpers


def loguniform(rng, lo, hi):
    return math.exp(rng.uniform(math.log(lo), math.log(hi)))


def gen_u(rng):
    return rng.choice(EDGE_U) if rng.random() < 0.12 else rng.random()


def gen_normals(rng):
    r = rng.random()
    if r < 0.08:
        q = [rng.choice([0.0, 1.0, -1.0]) for _ in range(4)]
        if not any(q):
            q[rng.randrange(4)] = 1.0
        return q
    scale = 1.0 if r < 0.8 else rng.choice([1e-3, 30.0])
    return [rng.gauss(0.0, 1.0) * scale for _ in range(4)]


def gen_cell(rng):
    kind = rng.choice(["tri", "tri", "tri", "cubic", "sheared", "lefthanded"])
    a = loguniform(rng, 3.0, 40.0)
    if kind == "cubic":
        return [[a, 0, 0], [0, a, 0], [0, 0, a]]
    b = loguniform(rng, 3.0, 40.0)
    c = loguniform(rng, 3.0, 40.0)
    sh = 0.9 if kind == "sheared" else 0.4
    m = [[a, 0.0, 0.0], [rng.uniform(-sh, sh) * a, b, 0.0], [rng.uniform(-sh, sh) * a, rng.uniform(-sh, sh) * b, c]]
    # random rigid rotation of the lattice so that no entry is structurally zero
    q = [rng.gauss(0, 1) for _ in range(4)]
    R = quat_matrix(q)
    m = [[sum(m[i][k] * R[j][k] for k in range(3)) for j in range(3)] for i in range(3)]
    if kind == "lefthanded":
        m[0], m[1] = m[1], m[0]
    return m


def quat_matrix(q):
    w, x, y, z = q
    n = w * w + x * x + y * y + z * z
    return [
        [(w * w + x * x - y * y - z * z) / n, 2 * (x * y - w * z) / n, 2 * (x * z + w * y) / n],
        [2 * (x * y + w * z) / n, (w * w - x * x + y * y - z * z) / n, 2 * (y * z - w * x) / n],
        [2 * (x * z - w * y) / n, 2 * (y * z + w * x) / n, (w * w - x * x - y * y + z * z) / n],
    ]


def gen_structure(rng, cell, nmax=12):
    """positions of the whole structure and the moving index list (a group of 1..nmax atoms, in shuffled order)"""
    n = rng.choice([1, 1, 2, 3, 3, 4, 5, 6, 8, 10, 12])
    n = min(n, nmax)
    extra = rng.choice([0, 0, 1, 2, 4])
    total = n + extra
    centre = [sum(rng.random() * cell[i][j] for i in range(3)) for j in range(3)]
    geom = rng.choice(["cloud", "cloud", "cloud", "linear", "coincident"])
    spread = loguniform(rng, 0.3, 3.0)
    d = [rng.gauss(0, 1) for _ in range(3)]
    pos = []
    for k in range(total):
        if geom == "cloud" or k >= n:
            pos.append([centre[j] + rng.gauss(0, spread) for j in range(3)])
        elif geom == "linear":
            pos.append([centre[j] + k * spread * d[j] for j in range(3)])
        else:
            pos.append(list(centre))
    order = list(range(total))
    rng.shuffle(order)
    pos = [pos[i] for i in order]
    moving = [order.index(k) for k in range(n)]
    rng.shuffle(moving)
    numbers = [rng.choice(SPECIES) for _ in range(total)]
    return pos, numbers, moving, geom


def masses_of(numbers):
    from ase.data import atomic_masses

    return [float(atomic_masses[z]) for z in numbers]


DRAWS = {"ball": "uuu", "sphere": "uu", "box": "uuu", "trans": "uuu", "rot": "nnnn", "transrot": "uuunnnn"}


def gen_disp_op(rng, allow_comp=True, group_ops=True):
    kinds = ["ball", "sphere", "box", "trans"] + (["rot", "transrot"] if group_ops else [])
    if allow_comp and rng.random() < 0.2:
        k = rng.choice([1, 2, 2, 3, 4])
        parts = [gen_disp_op(rng, False, group_ops) for _ in range(k)]
        # the same operation OBJECT several times in one composite (`op * n`, `a + b + a`): same parameters, own draws
        if k > 1 and rng.random() < 0.4:
            for j in range(1, k):
                if rng.random() < 0.6:
                    src = rng.randrange(j)
                    src = parts[src].get("same_as", src)
                    parts[j] = {**parts[src], "same_as": src}
        return {"kind": "comp", "parts": parts}
    kind = rng.choice(kinds)
    op = {"kind": kind}
    if kind in ("ball", "sphere", "box"):
        op["s"] = loguniform(rng, 1e-6, 1e3)
    return op


def draw_pattern(op):
    if op["kind"] in ("comp", "dcomp"):
        return "".join(draw_pattern(p) for p in op["parts"])
    if op["kind"] == "iso":
        return "u"
    if op["kind"] in ("aniso", "shape"):
        return "uuuuuu"
    return DRAWS[op["kind"]]


def gen_draws(rng, pattern):
    out = []
    i = 0
    while i < len(pattern):
        if pattern[i] == "u":
            out.append(gen_u(rng))
            i += 1
        else:
            out.extend(gen_normals(rng))
            i += 4
    return out


# --------------------------------------------------------------------------- building real objects


def build_disp_op(op):
    import quansino.mc  # noqa: F401  (import order, C08)
    from quansino.operations.composite import CompositeOperation
    from quansino.operations.displacement import Ball, Box, Rotation, Sphere, Translation, TranslationRotation

    k = op["kind"]
    if k == "ball":
        return Ball(op["s"])
    if k == "sphere":
        return Sphere(op["s"])
    if k == "box":
        return Box(op["s"])
    if k == "trans":
        return Translation()
    if k == "rot":
        return Rotation()
    if k == "transrot":
        return TranslationRotation()
    if k == "comp":
        objs = []
        for p in op["parts"]:
            objs.append(objs[p["same_as"]] if "same_as" in p else build_disp_op(p))
        if len(objs) > 1 and all(o is objs[0] for o in objs):
            return objs[0] * len(objs)          # the `op * n` spelling
        return CompositeOperation(objs)
    raise ValueError(k)


def build_def_op(op):
    import numpy as np
    import quansino.mc  # noqa: F401
    from quansino.operations.cell import AnisotropicDeformation, IsotropicDeformation, ShapeDeformation
    from quansino.operations.composite import CompositeOperation

    k = op["kind"]
    if k == "dcomp":
        return CompositeOperation([build_def_op(p) for p in op["parts"]])
    cls = {"iso": IsotropicDeformation, "aniso": AnisotropicDeformation, "shape": ShapeDeformation}[k]
    # another operation of the same class, built with the default mask, whose mask the user then edits IN PLACE (freezing z):
    # what one object is told must not reach any other object (a default array shared between instances would)
    decoy = cls(op["m"])
    try:
        decoy.mask[2, :] = False
        decoy.mask[:, 2] = False
    except (ValueError, TypeError):      # a read-only default mask is fine too
        pass
    if op.get("mask") is None:
        return cls(op["m"])
    m = np.array(op["mask"], dtype=bool).reshape(3, 3)
    how = int(sum(i * int(b) for i, b in enumerate(op["mask"]))) % 5
    if how == 3:
        # the mask is a public attribute: set on an existing operation (built with the default mask) …
        o = cls(op["m"])
        o.mask = m.copy()
        return o
    if how == 4:
        # … or edited in place; what counts is the mask the operation has when it draws
        o = cls(op["m"], mask=np.ones((3, 3), dtype=bool))
        o.mask[...] = m
        return o
    # a mask is a mask: as booleans, as the 0/1 integers ASE writes its masks with, or as nested lists
    kind = int(sum(op["mask"])) % 3
    if kind == 1:
        m = m.astype(int)
    elif kind == 2:
        m = m.tolist()
    return cls(op["m"], mask=m)


def make_rng(case):
    import numpy as np

    if case["mode"] == "scripted":
        return ScriptedRNG(case["draws"])
    return np.random.Generator(np.random.PCG64(case["seed"]))


def make_atoms(case):
    import numpy as np
    from ase import Atoms

    atoms = Atoms(numbers=case["numbers"], positions=np.array(case["pos"], dtype=float),
                  cell=np.array(case["cell"], dtype=float), pbc=True)
    if case.get("custom_masses"):
        atoms.set_masses(case["masses"])  # isotopes / user-set masses: the centre of mass is that of THESE masses
    return atoms


def flat(a):
    import numpy as np

    return [float(x) for x in np.asarray(a, dtype=float).ravel()]


def run_with_parts(case, build, ctx_cls):
    """result of the whole operation, and (for composites) of each part called in order on a twin generator"""
    import numpy as np

    op = case["op"]
    atoms = make_atoms(case)
    rng = make_rng(case)
    ctx = ctx_cls(atoms, rng)
    if "moving" in case:
        common.set_moving(ctx, np.array(case["moving"]) if case.get("moving_array") else list(case["moving"]))
    obs: dict = {}
    if op["kind"] in ("comp", "dcomp"):
        twin_atoms = make_atoms(case)
        twin = ctx_cls(twin_atoms, make_rng(case))
        if "moving" in case:
            common.set_moving(twin, list(case["moving"]))
        parts = []
        for p in op["parts"]:
            r = np.asarray(build(p).calculate(twin), dtype=float)
            parts.append({"shape": list(r.shape), "out": flat(r)})
        obs["parts"] = parts
    try:
        opobj = build(op)
        if "moving" in case and len(case["moving"]) > 1 and int(sum(case["numbers"])) % 4 == 0:
            # the SAME operation object has already been used on the SAME atoms object while the atoms had other masses
            # (isotopes set afterwards, or an exchange that put other species on these indices): what it computes now is
            # about the atoms as they are now
            real_masses = atoms.get_masses().copy()
            real_positions = atoms.get_positions()
            atoms.set_masses(real_masses[::-1].copy() + np.arange(len(atoms)))
            ctx.rng = np.random.default_rng(5)
            try:
                opobj.calculate(ctx)
            except Exception:  # noqa: BLE001  (the warm-up is not what is measured)
                pass
            atoms.set_masses(real_masses)
            atoms.positions = real_positions
            ctx.rng = rng
        out = opobj.calculate(ctx)
    except BrokenTie as e:
        return {"broken": str(e)}
    except Exception as e:
        obs["exception"] = type(e).__name__
        obs["message"] = str(e)[:200]
        return obs
    out = np.asarray(out, dtype=float)
    obs["shape"] = list(out.shape)
    obs["out"] = flat(out)
    if case["mode"] == "scripted":
        obs["consumed"] = rng.pos
        obs["calls"] = rng.calls
    return obs


def bits(x):
    return common.fbits(x)


def mask_str(mask):
    return "".join("1" if b else "0" for b in (mask if mask is not None else [1] * 9))


def mask_class(mask):
    if mask is None:
        return "default"
    if all(mask):
        return "all-true"
    if not any(mask):
        return "none"
    diag = [mask[0], mask[4], mask[8]]
    off = [mask[i] for i in (1, 2, 3, 5, 6, 7)]
    if all(diag) and not any(off):
        return "diag-only"
    sym = mask[1] == mask[3] and mask[2] == mask[6] and mask[5] == mask[7]
    return "partial-sym" if sym else "partial-asym"


# --------------------------------------------------------------------------- suite 1: displacement operations


class DisplacementOps(common.Suite):
    name = "displacement-ops"

    def cases(self, rng, tier):
        n_scripted, n_pcg = (900, 500) if tier == "quick" else (12000, 8000)
        for k in range(n_scripted + n_pcg):
            cell = gen_cell(rng)
            pos, numbers, moving, geom = gen_structure(rng, cell)
            op = gen_disp_op(rng)
            # every kind is guaranteed to appear early in the stream
            forced = ["ball", "sphere", "box", "trans", "rot", "transrot"]
            if k < 2 * len(forced):
                op = {"kind": forced[k % 6]}
                if op["kind"] in ("ball", "sphere", "box"):
                    op["s"] = loguniform(rng, 1e-6, 1e3)
            case = {"op": op, "cell": cell, "pos": pos, "numbers": numbers, "moving": moving, "geom": geom,
                    "masses": masses_of(numbers), "moving_array": rng.random() < 0.5}
            if rng.random() < 0.35:
                case["custom_masses"] = True
                case["masses"] = [m * rng.choice([1.0, 2.0, 0.5, 3.0]) + rng.choice([0.0, 1.0]) for m in case["masses"]]
            if k < n_scripted:
                case["mode"] = "scripted"
                case["draws"] = gen_draws(rng, draw_pattern(op))
            else:
                case["mode"] = "pcg"
                case["seed"] = rng.getrandbits(48)
            yield case

    def real(self, case):
        import quansino.mc  # noqa: F401
        from quansino.mc.contexts import DisplacementContext

        return run_with_parts(case, build_disp_op, DisplacementContext)

    # ---- model
    def op_tokens(self, case, op, draws):
        """protocol tokens of one elementary operation; consumes its draws from the front of `draws`"""
        k = op["kind"]
        d = [draws.pop(0) for _ in range(len(DRAWS[k]))]
        grp = [case["pos"][i] for i in case["moving"]]
        posf = common.fl([x for p in grp for x in p])
        ms = common.fl([case["masses"][i] for i in case["moving"]])
        cellf = common.fl([x for r in case["cell"] for x in r])
        db = [bits(x) for x in d]
        if k in ("ball", "sphere", "box"):
            return [k, bits(op["s"]), *db]
        if k == "trans":
            return ["trans", cellf, posf, *db]
        if k == "rot":
            return ["rot", posf, ms, *db]
        return ["transrot", cellf, posf, ms, *db]

    def model_lines(self, case):
        if case["mode"] != "scripted":
            return []
        draws = list(case["draws"])
        op = case["op"]
        if op["kind"] == "comp":
            toks = ["ops", "comp"]
            for p in op["parts"]:
                toks += ["|", *self.op_tokens(case, p, draws)]
            return [" ".join(toks)]
        return [" ".join(["ops", *self.op_tokens(case, op, draws)])]

    def model_obs(self, case, outs):
        w = outs[0].split()
        if w[0] != "ok":
            return {"result": " ".join(w)}
        return {"out": common.lf(w[1]), "consumed": len(case["draws"])}

    def scale(self, case):
        op = case["op"]
        ops = op["parts"] if op["kind"] == "comp" else [op]
        s = 0.0
        for p in ops:
            if "s" in p:
                s = max(s, p["s"])
            else:
                s = max(s, max(abs(x) for r in case["cell"] for x in r),
                        max(abs(x) for i in case["moving"] for x in case["pos"][i]))
        return s

    def compare(self, case, real, model):
        if "broken" in real:
            return [f"generator protocol: {real['broken']}"]
        if "result" in model:
            if model["result"] == "err shape" and real.get("exception"):
                return []
            return [f"model says {model['result']!r}, real {('exception ' + real['exception']) if 'exception' in real else 'returned'}"]
        if "out" not in real:
            return [f"real raised {real.get('exception')}: {real.get('message')}, model returned"]
        diffs = []
        if len(real["out"]) != len(model["out"]):
            return [f"shape: real {real['shape']} model {len(model['out']) // 3}x3"]
        tol = 1e-9 * self.scale(case)
        for i, (a, b) in enumerate(zip(real["out"], model["out"])):
            if not common.close(a, b, 1e-9, tol):
                diffs.append(f"out[{i}]: real={a!r} model={b!r}")
        if real.get("consumed") != model["consumed"]:
            diffs.append(f"draws consumed: real={real.get('consumed')} ({real.get('calls')}) model={model['consumed']}")
        return diffs[:6]

    # ---- oracle (property text on the real output)
    def oracle(self, case, obs):
        import numpy as np

        if "broken" in obs:
            return []
        op = case["op"]
        kind = op["kind"]
        grp = np.array([case["pos"][i] for i in case["moving"]], dtype=float)
        n = len(grp)
        if "exception" in obs:
            if kind == "comp" and "parts" in obs and len({tuple(p["shape"]) for p in obs["parts"]}) > 1:
                return [("composite:mixed-shapes-raise",
                         f"CompositeOperation of parts with shapes {[p['shape'] for p in obs['parts']]} raised "
                         f"{obs['exception']}: {obs['message']}")]
            return [(f"{kind}:exception:{obs['exception']}", obs["message"])]
        out = np.array(obs["out"], dtype=float).reshape(-1, 3)
        fails = []
        if not np.all(np.isfinite(out)):
            return [(f"{kind}:non-finite", str(obs["out"][:6]))]
        if kind in ("ball", "sphere", "box", "trans") and out.shape != (1, 3):
            fails.append((f"{kind}:shape", str(obs["shape"])))
        if kind in ("rot", "transrot") and out.shape != (n, 3):
            fails.append((f"{kind}:shape", str(obs["shape"])))
        if fails:
            return fails
        if kind == "ball":
            r = float(np.linalg.norm(out))
            if r > op["s"] * (1 + 1e-12):
                fails.append(("ball:norm-exceeds-step", f"|d|={r!r} > s={op['s']!r}"))
        elif kind == "sphere":
            r = float(np.linalg.norm(out))
            if not common.close(r, op["s"], 1e-9):
                fails.append(("sphere:norm-not-step", f"|d|={r!r} s={op['s']!r}"))
        elif kind == "box":
            if np.any(np.abs(out) > op["s"]):
                fails.append(("box:component-out-of-bounds", f"d={out.tolist()} s={op['s']!r}"))
        elif kind == "trans":
            cell = np.array(case["cell"], dtype=float)
            cen = (grp + out).mean(axis=0)
            frac = np.linalg.solve(cell.T, cen)
            if np.any(frac < -1e-9) or np.any(frac >= 1 + 1e-9):
                fails.append(("translation:centroid-outside-cell", f"fractional centroid {frac.tolist()}"))
            if case["mode"] == "scripted" and obs.get("consumed") == 3:
                want = np.array(case["draws"][:3])
                if np.max(np.abs(frac - want)) > 1e-9 * (1 + np.linalg.cond(cell)):
                    fails.append(("translation:centroid-not-at-draw", f"fractional {frac.tolist()} draws {want.tolist()}"))
        if kind in ("rot", "transrot"):
            new = grp + out
            d0 = np.linalg.norm(grp[:, None] - grp[None, :], axis=-1)
            d1 = np.linalg.norm(new[:, None] - new[None, :], axis=-1)
            ext = max(1.0, float(np.abs(grp).max()), float(np.abs(new).max()))
            if np.max(np.abs(d0 - d1)) > 1e-9 * ext:
                fails.append((f"{kind}:not-rigid", f"max distance change {np.max(np.abs(d0 - d1))!r}"))
            if kind == "rot":
                m = np.array([case["masses"][i] for i in case["moving"]])
                c0 = m @ grp / m.sum()
                c1 = m @ new / m.sum()
                if np.max(np.abs(c0 - c1)) > 1e-9 * ext:
                    fails.append(("rotation:com-moved", f"{c0.tolist()} -> {c1.tolist()}"))
        if kind == "comp":
            fails += self.sum_of_parts(obs, "composite")
        return fails

    @staticmethod
    def sum_of_parts(obs, label):
        import numpy as np

        parts = [np.array(p["out"], dtype=float).reshape(p["shape"]) for p in obs["parts"]]
        out = np.array(obs["out"], dtype=float).reshape(obs["shape"]) if obs["shape"] else np.array(obs["out"][0])
        try:
            want = parts[0]
            for p in parts[1:]:
                want = want + p
        except ValueError:
            return []  # parts that cannot be added at all: no sum is defined
        if np.shape(want) != np.shape(out):
            return [(f"{label}:shape", f"{np.shape(out)} != {np.shape(want)}")]
        sc = max([1e-300] + [float(np.abs(p).max()) for p in parts])
        if np.max(np.abs(want - out)) > 1e-9 * sc:
            return [(f"{label}:not-sum-of-parts", f"max deviation {np.max(np.abs(want - out))!r}")]
        return []

    def classify(self, case, obs):
        if "broken" in obs:
            return f"{case['mode']}:{case['op']['kind']}:broken-tie"
        k = case["op"]["kind"]
        if k == "comp":
            kinds = {p["kind"] for p in case["op"]["parts"]}
            mixed = bool(kinds & {"rot", "transrot"}) and bool(kinds - {"rot", "transrot"}) and len(case["moving"]) > 1
            k = "comp:mixed-shapes" if mixed else "comp:same-shape"
        tag = "raised" if "exception" in obs else "n=1" if len(case["moving"]) == 1 else "n>1"
        return f"{case['mode']}:{k}:{tag}"


# --------------------------------------------------------------------------- suite 2: deformation operations


def spread_masks(rng, count):
    base = [None, [1] * 9, [0] * 9, [1, 0, 0, 0, 1, 0, 0, 0, 1], [1, 0, 0, 0, 1, 0, 0, 0, 0], [0, 0, 0, 0, 0, 0, 0, 0, 1],
            [1, 1, 0, 1, 1, 0, 0, 0, 1], [1, 1, 1, 0, 1, 1, 0, 0, 1], [0, 1, 1, 1, 0, 1, 1, 1, 0]]
    while len(base) < count:
        base.append([rng.randrange(2) for _ in range(9)])
    return base


class DeformationOps(common.Suite):
    name = "deformation-ops"

    def cases(self, rng, tier):
        if tier == "quick":
            masks = spread_masks(rng, 40)
            reps = 3
        else:
            masks = [None] + [list(m) for m in itertools.product([0, 1], repeat=9)]
            reps = 4
        cell = [[5.0, 0, 0], [0.5, 6.0, 0], [-0.7, 0.3, 7.0]]
        base = {"cell": cell, "pos": [[0.1, 0.2, 0.3], [2.0, 2.5, 3.0]], "numbers": [29, 79]}
        for mask in masks:
            for kind in ("iso", "aniso", "shape"):
                for r in range(reps):
                    m = loguniform(rng, 1e-4, 0.5)
                    op = {"kind": kind, "m": m, "mask": mask}
                    case = dict(base, op=op)
                    if r < reps - 1:
                        case["mode"] = "scripted"
                        case["draws"] = gen_draws(rng, draw_pattern(op))
                    else:
                        case["mode"] = "pcg"
                        case["seed"] = rng.getrandbits(48)
                    yield case
        # default-mask stress: many draws, incl. the edges of the sampling box
        n_def = 300 if tier == "quick" else 6000
        for k in range(n_def):
            kind = ("iso", "aniso", "shape")[k % 3]
            op = {"kind": kind, "m": loguniform(rng, 1e-4, 0.5), "mask": None if k % 2 else [1] * 9}
            case = dict(base, op=op)
            if k % 4 != 3:
                case["mode"] = "scripted"
                case["draws"] = gen_draws(rng, draw_pattern(op))
            else:
                case["mode"] = "pcg"
                case["seed"] = rng.getrandbits(48)
            yield case
        # composites of deformations
        for k in range(60 if tier == "quick" else 1500):
            parts = []
            for _ in range(rng.choice([1, 2, 2, 3])):
                parts.append({"kind": rng.choice(["iso", "aniso", "shape"]), "m": loguniform(rng, 1e-4, 0.5),
                              "mask": rng.choice(masks)})
            op = {"kind": "dcomp", "parts": parts}
            case = dict(base, op=op)
            if k % 3:
                case["mode"] = "scripted"
                case["draws"] = gen_draws(rng, draw_pattern(op))
            else:
                case["mode"] = "pcg"
                case["seed"] = rng.getrandbits(48)
            yield case

    def real(self, case):
        import quansino.mc  # noqa: F401
        from quansino.mc.contexts import DeformationContext

        return run_with_parts(case, build_def_op, DeformationContext)

    @staticmethod
    def op_tokens(op, draws):
        d = [bits(draws.pop(0)) for _ in range(1 if op["kind"] == "iso" else 6)]
        return [op["kind"], bits(op["m"]), mask_str(op["mask"]), *d]

    def model_lines(self, case):
        if case["mode"] != "scripted":
            return []
        draws = list(case["draws"])
        op = case["op"]
        if op["kind"] == "dcomp":
            toks = ["ops", "dcomp"]
            for p in op["parts"]:
                toks += ["|", *self.op_tokens(p, draws)]
            return [" ".join(toks)]
        return [" ".join(["ops", *self.op_tokens(op, draws)])]

    def model_obs(self, case, outs):
        w = outs[0].split()
        if w[0] != "ok":
            return {"result": " ".join(w)}
        return {"out": common.lf(w[1]), "consumed": len(case["draws"])}

    def compare(self, case, real, model):
        if "broken" in real:
            return [f"generator protocol: {real['broken']}"]
        if "result" in model:
            return [f"model says {model['result']!r}"]
        if "out" not in real:
            return [f"real raised {real.get('exception')}: {real.get('message')}, model returned"]
        if len(real["out"]) != 9:
            return [f"shape: real {real['shape']}"]
        sc = max(abs(x) for x in real["out"] + model["out"])
        diffs = []
        for i, (a, b) in enumerate(zip(real["out"], model["out"])):
            if abs(a - b) > 1e-7 * sc:
                diffs.append(f"F[{i // 3},{i % 3}]: real={a!r} model={b!r}")
        if real.get("consumed") != model["consumed"]:
            diffs.append(f"draws consumed: real={real.get('consumed')} ({real.get('calls')}) model={model['consumed']}")
        return diffs[:6]

    def oracle(self, case, obs):
        import numpy as np

        if "broken" in obs:
            return []
        op = case["op"]
        kind = op["kind"]
        if "exception" in obs:
            return [(f"{kind}:exception:{obs['exception']}", obs["message"])]
        if obs["shape"] != [3, 3]:
            return [(f"{kind}:shape", str(obs["shape"]))]
        F = np.array(obs["out"], dtype=float).reshape(3, 3)
        if not np.all(np.isfinite(F)):
            return [(f"{kind}:non-finite", str(obs["out"]))]
        if kind == "dcomp":
            return DisplacementOps.sum_of_parts(obs, "composite-deformation")
        fails = []
        mask = np.array(op["mask"] if op["mask"] is not None else [1] * 9, dtype=bool).reshape(3, 3)
        eye = np.eye(3)
        if np.any(F[~mask] != eye[~mask]):
            fails.append((f"{kind}:masked-entry-not-identity", f"F={F.tolist()} mask={mask.astype(int).tolist()}"))
        if mask.all():
            sc = float(np.abs(F).max())
            if np.max(np.abs(F - F.T)) > 1e-12 * sc:
                fails.append((f"{kind}:not-symmetric", f"F={F.tolist()}"))
            ev = np.linalg.eigvalsh((F + F.T) / 2)
            if ev.min() <= 0:
                fails.append((f"{kind}:not-positive-definite", f"eigenvalues {ev.tolist()}"))
            if kind == "iso":
                off = F - np.diag(np.diag(F))
                if np.any(off != 0) or not (F[0, 0] == F[1, 1] == F[2, 2]) or F[0, 0] <= 0:
                    fails.append(("iso:not-scalar-identity", f"F={F.tolist()}"))
            if kind == "shape":
                det = float(np.linalg.det(F))
                if abs(det - 1) > 1e-9:
                    fails.append(("shape:volume-not-preserved", f"det={det!r}"))
        return fails

    def classify(self, case, obs):
        op = case["op"]
        if "broken" in obs:
            return f"{case['mode']}:{op['kind']}:broken-tie"
        if op["kind"] == "dcomp":
            return f"{case['mode']}:dcomp:{len(op['parts'])}"
        return f"{case['mode']}:{op['kind']}:{mask_class(op['mask'])}"


# --------------------------------------------------------------------------- suite 3: symmetry of the proposal laws


def kabsch(X, Y, w):
    """proper rotation R minimising sum w |R x - y|^2"""
    import numpy as np

    H = (X * w[:, None]).T @ Y
    U, _, Vt = np.linalg.svd(H)
    d = np.sign(np.linalg.det(Vt.T @ U.T))
    return Vt.T @ np.diag([1.0, 1.0, d]) @ U.T


class ProposalSymmetry(common.Suite):
    """odd-moment tests of d vs -d (rotation vector, log-strain); chi-square of the translated centroid"""

    name = "proposal-symmetry"
    Z = 8.0

    GROUP = {"numbers": [8, 1, 1, 6, 7], "moving": [0, 1, 2, 3],
             "pos": [[5.0, 5.0, 5.0], [5.76, 5.59, 5.0], [4.24, 5.59, 5.1], [5.1, 4.2, 6.1], [1.0, 1.0, 1.0]],
             "cell": [[11.0, 0.0, 0.0], [1.5, 12.0, 0.0], [-2.0, 1.0, 13.0]]}

    def cases(self, rng, tier):
        n = 2000 if tier == "quick" else 20000
        specs = [{"kind": "ball", "s": 0.3}, {"kind": "sphere", "s": 1.7}, {"kind": "box", "s": 0.05},
                 {"kind": "rot"}, {"kind": "trans"},
                 {"kind": "iso", "m": 0.2, "mask": None}, {"kind": "aniso", "m": 0.1, "mask": None},
                 {"kind": "shape", "m": 0.3, "mask": None}]
        for op in specs:
            yield {"op": op, "n": n, "seeds": [rng.getrandbits(40) for _ in range(3)]}

    def sample(self, op, seed, n):
        import numpy as np
        from ase import Atoms
        import quansino.mc  # noqa: F401
        from quansino.mc.contexts import DeformationContext, DisplacementContext

        g = self.GROUP
        atoms = Atoms(numbers=g["numbers"], positions=g["pos"], cell=g["cell"], pbc=True)
        rng = np.random.Generator(np.random.PCG64(seed))
        kind = op["kind"]
        rows = []
        if kind in ("iso", "aniso", "shape"):
            ctx = DeformationContext(atoms, rng)
            o = build_def_op(op)
            for _ in range(n):
                F = np.asarray(o.calculate(ctx), dtype=float)
                w, V = np.linalg.eigh((F + F.T) / 2)
                A = (V * np.log(w)) @ V.T
                rows.append([A[0, 0], A[1, 1], A[2, 2], A[0, 1], A[0, 2], A[1, 2]])
            return np.array(rows)
        ctx = DisplacementContext(atoms, rng)
        common.set_moving(ctx, list(g["moving"]))
        o = build_disp_op(op)
        grp = atoms.positions[g["moving"]].copy()
        m = atoms.get_masses()[g["moving"]]
        c0 = m @ grp / m.sum()
        for _ in range(n):
            d = np.asarray(o.calculate(ctx), dtype=float)
            if kind == "rot":
                from scipy.spatial.transform import Rotation as SR

                new = grp + d
                c1 = m @ new / m.sum()
                R = kabsch(grp - c0, new - c1, m)
                rows.append(SR.from_matrix(R).as_rotvec())
            elif kind == "trans":
                cen = (grp + d).mean(axis=0)
                rows.append(np.linalg.solve(np.array(g["cell"], dtype=float).T, cen))
            else:
                rows.append(d.ravel())
        return np.array(rows)

    def real(self, case):
        import numpy as np

        op = case["op"]
        per_seed = []
        for seed in case["seeds"]:
            x = self.sample(op, seed, case["n"])
            n = len(x)
            if op["kind"] == "trans":
                # chi-square of 10 bins per fractional coordinate against the uniform law -> z-like score
                zs = []
                for c in range(3):
                    h = np.histogram(x[:, c], bins=10, range=(0.0, 1.0))[0]
                    chi2 = float(((h - n / 10) ** 2 / (n / 10)).sum())
                    zs.append((chi2 - 9) / math.sqrt(18))  # mean 9, variance 18 under the null
                    zs.append(float(n - h.sum()))  # samples outside [0,1): must be 0
                per_seed.append(zs)
                continue
            zs = []
            for c in range(x.shape[1]):
                for pw in (1, 3):
                    v = x[:, c] ** pw
                    sd = float(v.std())
                    zs.append(0.0 if sd == 0 else float(v.mean() / (sd / math.sqrt(n))))
                pos = int((x[:, c] > 0).sum())
                neg = int((x[:, c] < 0).sum())
                zs.append(0.0 if pos + neg == 0 else (pos - neg) / math.sqrt(pos + neg))
            per_seed.append(zs)
        return {"z": per_seed}

    def oracle(self, case, obs):
        if "exception" in obs:
            return [(f"{case['op']['kind']}:exception:{obs['exception']}", obs["message"])]
        kind = case["op"]["kind"]
        z = obs["z"]
        label = {"rot": "rotation", "trans": "translation"}.get(kind, kind)
        fails = []
        for k in range(len(z[0])):
            col = [zs[k] for zs in z]
            if kind == "trans":
                if k % 2 == 1 and any(v > 0 for v in col):
                    fails.append(("translation:centroid-outside-cell", f"{col} samples outside [0,1) on axis {k // 2}"))
                elif k % 2 == 0 and all(v > self.Z * 3 for v in col):
                    fails.append(("translation:nonuniform", f"axis {k // 2}: chi-square scores {col} on 3 seeds"))
                continue
            if all(v > self.Z for v in col) or all(v < -self.Z for v in col):
                what = ("mean", "third moment", "sign count")[k % 3]
                fails.append((f"{label}:asymmetric",
                              f"component {k // 3} {what}: z = {[round(v, 1) for v in col]} on 3 seeds "
                              f"(d and -d are not equally likely)"))
                break
        return fails

    def classify(self, case, obs):
        return case["op"]["kind"]


# --------------------------------------------------------------------------- suite 4: the move's retry loop


class MoveRetry(common.Suite):
    """what `DisplacementMove.attempt_displacement` finally applies when `check_move` vetoes attempts: the translation of
    ONE proposal (model: `Ops.moveLoop`, theorems `moveLoop_mem` / `moveLoop_bound` / `ball_move_norm`)"""

    name = "move-retry-loop"

    def cases(self, rng, tier):
        k = 300 if tier == "quick" else 6000
        forced = ["ball", "sphere", "box", "trans", "rot", "transrot"]
        for i in range(k):
            cell = gen_cell(rng)
            pos, numbers, moving, geom = gen_structure(rng, cell)
            op = gen_disp_op(rng, allow_comp=False)
            if i < 2 * len(forced):
                op = {"kind": forced[i % 6]}
                if op["kind"] in ("ball", "sphere", "box"):
                    op["s"] = loguniform(rng, 1e-6, 1e3)
            m = rng.choice([1, 2, 3, 3, 4, 6])
            nveto = rng.choice([0, 1, 1, 2, 3, m, m])
            nveto = min(nveto, m)
            attempts = min(nveto + 1, m)
            draws = []
            for _ in range(attempts):
                draws += gen_draws(rng, draw_pattern(op))
            yield {"op": op, "cell": cell, "pos": pos, "numbers": numbers, "moving": moving, "geom": geom,
                   "masses": masses_of(numbers), "moving_array": rng.random() < 0.5, "mode": "scripted",
                   "draws": draws, "max_attempts": m, "nveto": nveto, "attempts": attempts,
                   "checks": "0" * nveto + "1" * (m - nveto)}

    def real(self, case):
        import numpy as np
        import quansino.mc  # noqa: F401
        from quansino.mc.contexts import DisplacementContext
        from quansino.moves.displacement import DisplacementMove

        atoms = make_atoms(case)
        rng = make_rng(case)
        ctx = DisplacementContext(atoms, rng)
        common.set_moving(ctx, np.array(case["moving"]) if case.get("moving_array") else list(case["moving"]))
        move = DisplacementMove(np.zeros(len(atoms), dtype=int), operation=build_disp_op(case["op"]))
        move.max_attempts = case["max_attempts"]
        verdicts = iter(c == "1" for c in case["checks"])
        seen = []

        def check(*_a, **_k):
            seen.append(atoms.get_positions())
            return next(verdicts)

        move.check_move = check
        before = atoms.get_positions()
        try:
            ok = move.attempt_displacement(ctx)
        except BrokenTie as e:
            return {"broken": str(e)}
        except Exception as e:  # noqa: BLE001
            return {"exception": type(e).__name__, "message": str(e)[:200]}
        d = atoms.get_positions() - before
        others = [i for i in range(len(atoms)) if i not in case["moving"]]
        return {"ok": bool(ok), "disp": flat(d[case["moving"]]),
                "others": float(np.abs(d[others]).max()) if others else 0.0,
                "per_attempt": [flat((q - before)[case["moving"]]) for q in seen],
                "consumed": rng.pos, "checks_called": len(seen)}

    def model_lines(self, case):
        draws = list(case["draws"])
        toks = ["ops", "loop", str(case["max_attempts"]), case["checks"]]
        helper = DisplacementOps()
        for _ in range(case["attempts"]):
            toks += ["|", *helper.op_tokens(case, case["op"], draws)]
        return [" ".join(toks)]

    def model_obs(self, case, outs):
        w = outs[0].split()
        if w[0] == "none":
            return {"ok": False}
        if w[0] != "ok":
            return {"result": " ".join(w)}
        return {"ok": True, "out": common.lf(w[1])}

    def tol(self, case):
        sc = DisplacementOps().scale(case)
        pm = max(abs(x) for p in case["pos"] for x in p)
        return 1e-9 * sc + 16 * 2.3e-16 * max(pm, sc)

    def compare(self, case, real, model):
        if "broken" in real:
            return [f"generator protocol: {real['broken']}"]
        if "result" in model:
            return [f"model says {model['result']!r}"]
        if "exception" in real:
            return [f"real raised {real['exception']}: {real['message']}"]
        d = []
        if real["ok"] != model["ok"]:
            d.append(f"success: real={real['ok']} model={model['ok']}")
        n = len(case["moving"])
        want = [0.0] * (3 * n)
        if model["ok"]:
            out = model["out"]
            want = out * n if len(out) == 3 else out
        tol = self.tol(case)
        if len(want) != len(real["disp"]):
            return [*d, f"shape: real {len(real['disp'])} model {len(want)}"]
        for i, (a, b) in enumerate(zip(real["disp"], want)):
            if abs(a - b) > tol:
                d.append(f"applied displacement[{i}]: real={a!r} model={b!r}")
        if real["checks_called"] != case["attempts"]:
            d.append(f"check_move calls: real={real['checks_called']} model={case['attempts']}")
        if real["consumed"] != len(case["draws"]):
            d.append(f"draws consumed: real={real['consumed']} model={len(case['draws'])}")
        return d[:6]

    def oracle(self, case, obs):
        import numpy as np

        if "broken" in obs:
            return []
        kind = case["op"]["kind"]
        if "exception" in obs:
            return [(f"move:{kind}:exception:{obs['exception']}", obs["message"])]
        fails = []
        tol = self.tol(case)
        if obs["others"] != 0.0:
            fails.append((f"move:{kind}:bystander-moved", f"an atom outside the moving group moved by {obs['others']!r}"))
        d = np.array(obs["disp"], float).reshape(-1, 3)
        if not obs["ok"]:
            if np.any(d != 0.0):
                fails.append((f"move:{kind}:failed-move-left-displacement", f"{d.tolist()}"))
            return fails
        # every state shown to check_move, and the final one, is ONE proposal away from the start
        for tag, dd in [*[(f"attempt {i}", np.array(x, float).reshape(-1, 3)) for i, x in enumerate(obs["per_attempt"])],
                        ("final", d)]:
            if kind in ("ball", "sphere", "box"):
                s = case["op"]["s"]
                r = np.linalg.norm(dd, axis=1)
                if kind == "ball" and np.any(r > s + tol):
                    fails.append(("move:ball:norm-exceeds-step", f"{tag}: |d|={r.max()!r} > s={s!r}"))
                if kind == "sphere" and np.any(np.abs(r - s) > tol):
                    fails.append(("move:sphere:norm-not-step", f"{tag}: |d|={r.tolist()!r} s={s!r}"))
                if kind == "box" and np.any(np.abs(dd) > s + tol):
                    fails.append(("move:box:component-out-of-bounds", f"{tag}: d={dd.tolist()} s={s!r}"))
            if kind in ("ball", "sphere", "box", "trans") and np.max(np.abs(dd - dd[0])) > tol:
                fails.append((f"move:{kind}:group-not-moved-rigidly", f"{tag}: {dd.tolist()}"))
        return fails[:4]

    def classify(self, case, obs):
        if "broken" in obs:
            return f"retry:{case['op']['kind']}:broken-tie"
        v = "none" if case["nveto"] == 0 else "all" if case["nveto"] >= case["max_attempts"] else "some"
        return f"retry:{case['op']['kind']}:vetoed={v}:{'n=1' if len(case['moving']) == 1 else 'n>1'}"


class OperationHandedOver(common.Suite):
    """a move applies the operation it was GIVEN — whichever it is, also a composite of no parts (whose sum is zero) —
    and falls back to its default operation only when none was given (model: `Ops.chosenOp`, theorems
    `move_uses_given_operation`, `composite_nil_zero`; oracle only: there is nothing to compute)"""

    name = "operation-handed-over"

    def cases(self, rng, tier):
        reps = 3 if tier == "quick" else 30
        for _ in range(reps):
            for move in ["disp", "hdisp", "cell", "exch"]:
                for nparts in [None, 0, 1, 2, 3]:
                    yield {"move": move, "nparts": nparts, "seed": rng.randrange(1 << 30), "natoms": rng.choice([1, 2, 4])}

    def real(self, case):
        import numpy as np
        import quansino.mc  # noqa: F401
        from ase import Atoms
        from quansino.mc.contexts import DeformationContext, DisplacementContext
        from quansino.moves.cell import CellMove
        from quansino.moves.displacement import DisplacementMove, HamiltonianDisplacementMove
        from quansino.moves.exchange import ExchangeMove
        from quansino.operations.cell import IsotropicDeformation
        from quansino.operations.composite import CompositeOperation
        from quansino.operations.displacement import Ball, Box, Translation

        n = case["natoms"]
        rs = np.random.default_rng(case["seed"])
        atoms = Atoms(f"Cu{n}", positions=rs.uniform(0, 5, (n, 3)), cell=[6.0, 6.0, 6.0], pbc=True)
        kind = case["move"]
        parts_pool = [IsotropicDeformation(0.05)] * 3 if kind == "cell" else [Ball(0.3), Box(0.2), Translation()]
        op = None if case["nparts"] is None else CompositeOperation(parts_pool[:case["nparts"]])
        try:
            if kind == "disp":
                move = DisplacementMove(np.arange(n), operation=op)
            elif kind == "hdisp":
                move = HamiltonianDisplacementMove(np.arange(n), operation=op)
            elif kind == "cell":
                move = CellMove(operation=op)
            else:
                move = ExchangeMove(np.arange(n), operation=op)
        except Exception as e:  # noqa: BLE001
            return {"exception": type(e).__name__, "message": str(e)[:200]}
        out = {"given": op is not None, "kept": move.operation is op,
               "default_kind": type(move.operation).__name__ if op is None else None}
        if kind == "disp" and op is not None:
            rng = np.random.default_rng(case["seed"] + 1)
            ref = np.random.default_rng(case["seed"] + 1)
            ctx = DisplacementContext(atoms, rng)
            before = atoms.get_positions()
            move.check_move = lambda *_a, **_k: True
            move.to_displace_labels = 0        # pre-selected particle: every draw belongs to the operation
            try:
                ok = move(ctx)
            except Exception as e:  # noqa: BLE001
                return {**out, "exception": type(e).__name__, "message": str(e)[:200]}
            d = atoms.get_positions() - before
            out["ok"] = bool(ok)
            out["moved"] = float(np.abs(d).max())
            # the draws the GIVEN operation needs on the selected particle, replayed on a twin generator
            twin = Atoms(f"Cu{n}", positions=before, cell=[6.0, 6.0, 6.0], pbc=True)
            tctx = DisplacementContext(twin, ref)
            common.set_moving(tctx, np.array([0]))
            want = op.calculate(tctx)
            exp = np.zeros_like(before)
            exp[common.get_moving(tctx)] = want
            out["as_given"] = float(np.abs(d - exp).max())
        return out

    def oracle(self, case, obs):
        out = []
        tag = f"{case['move']}:parts={case['nparts']}"
        if "exception" in obs:
            out.append((f"handover:exception:{tag}:{obs['exception']}", obs["message"]))
            return out
        if obs["given"] and not obs["kept"]:
            out.append((f"handover:given-operation-replaced:{tag}", "move.operation is not the operation object passed to the constructor"))
        if obs.get("as_given", 0.0) > 1e-12:
            out.append((f"handover:displacement-is-not-the-given-operations:{tag}",
                        f"the move displaced by something {obs['as_given']:.3g} away from what the given operation computes (moved {obs['moved']:.3g})"))
        return out

    def classify(self, case, obs):
        return f"{case['move']}:parts={case['nparts']}"


def suites(tier):
    return [DisplacementOps(), DeformationOps(), ProposalSymmetry(), MoveRetry(), OperationHandedOver()]
