"""C01 — ensembles reproduce exact averages of solvable systems (DESIGN §6 C01; partial by nature).

The theorems (QProps/C01.lean) prove the logical core: reversibility of the Metropolis/Hastings kernel, that the
acceptance exponents of the model are the log-ratios of the textbook densities, and the closed-form averages of those
densities.  The model is tied to the code by the correspondences of C02 (criteria), C10 (operations) and C03
(restoration); nothing new is modelled here, so this check has no model lines.  What it adds on the **real code**:

(a) `db-residual` (gating): for generated pairs of states (x, y) of each solvable system the real move proposes y from x
    on a real simulation object (Canonical / HamiltonianCanonical / Isobaric / GrandCanonical, public API), the real
    acceptance probability p(x→y) of the real criteria object is measured by bisection on a scripted
    `context.rng.random()` (the decision is monotone in u), the reverse probability p(y→x) is measured on a second
    simulation object standing at y, and
        pi(x) g(x→y) p(x→y) = pi(y) g(y→x) p(y→x)
    is demanded to 1e-8 relative, with pi and g from the textbook closed forms written here independently
    (Boltzmann weight; V^(N+1) exp(-(E+PV)/kT) in ln V; exp((mu N - E)/kT)/Lambda^(3N) with insertion density 1/V and
    deletion probability 1/(N+1); exp(-H/kT) for the Hamiltonian move, whose reversibility is checked too).
    A wrong prefactor (N for N+1), a sign, a missing Lambda gives a concrete failing pair = the replay.
    After the measurement the driver's `revert_state()` must give back x exactly ("rejected mass stays at x").
(b) `ensemble-average`: fixed-seed runs through the public API (`srun`) of harmonic wells (mean potential energy
    (3N/2)kT; Ball/Box/Sphere, composite move, composite operation, Hamiltonian), a rigid dipole in a field (mean
    cos(theta) = coth x - 1/x; Rotation, TranslationRotation), the NPT ideal gas (mean V = (N+1)kT/P) and the muVT
    ideal gas (mean N = V exp(mu/kT)/Lambda^3, variance = mean, uniform positions by octants, uniform orientations
    of inserted molecules), with batch-means error bars.  It gates only when a deviation exceeds 6 sigma AND
    reproduces on three independent seeds (then the history — system, parameters, seeds — is the replay); otherwise
    the numbers are corroboration written to the evidence file.
"""
from __future__ import annotations

import math
import os

import common

ID = "C01"
LEAN_MODULES = ["QProps.C01"]
THEOREMS = [
    "Metro.metropolis_detailed_balance",
    "Metro.hastings_detailed_balance",
    "Metro.detailed_balance_stationary",
    "Metro.kernel_entries",
    "Metro.kernel_markov",
    "Metro.stationary_forever",
    "Metro.metropolis_hastings_stationary",
    "Metro.model_metropolis_hastings_stationary",
    "Metro.accept_probability",
    "Metro.canonical_ratio",
    "Metro.canonical_ratio_ctx",
    "Metro.hamiltonian_ratio",
    "Metro.rhoNPT_change_of_variables",
    "Metro.isobaric_ratio",
    "Metro.isobaric_ratio_ctx",
    "Metro.isobaric_logvolume_step_symm",
    "Metro.gc_pair_inverse",
    "Metro.gc_ratio",
    "Metro.gc_detailed_balance",
    "Metro.gc_detailed_balance_density",
    "Metro.gc_mixed_form_false",
    "Metro.gc_poisson_ratio",
    "Metro.cited_theorems_exist",
    "Metro.canonical_chain_stationary",
    "Metro.isobaric_chain_stationary",
    "Metro.gc_chain_stationary",
    "Metro.gamma_mean",
    "Metro.npt_mean_volume",
    "Metro.dipole_mean",
    "Metro.harmonic_mean_1d",
    "Metro.equipartition_1d",
    "Metro.harmonic_energy_nd",
    "Metro.harmonic_energy_3N",
    "Metro.poisson_of_ratio",
    "Metro.gc_ideal_gas_poisson",
    "Metro.poisson_mean",
    "Metro.poisson_second_factorial_moment",
]
RULE = (
    "db-residual: pairs (x, y) produced by the real moves (DisplacementMove with Ball/Box/Sphere/Ball+Box/move*2 on "
    "harmonic wells, Rotation/TranslationRotation on a rigid diatomic in a field, CellMove(IsotropicDeformation) on an "
    "ideal gas and on harmonic wells under Isobaric with cubic/orthorhombic/triclinic cells, ExchangeMove insertions and "
    "deletions under GrandCanonical with a zero-energy and an external-field calculator, atoms and molecules, with and "
    "without framework atoms, HamiltonianDisplacementMove with Verlet) at random temperatures, spring constants, "
    "pressures, chemical potentials and particle numbers; acceptance probabilities measured by bisection (<=130 real "
    "evaluate() calls per direction); a case is non-trivial when the move succeeded; distinct = distinct inputs. "
    "ensemble-average: fixed-seed srun() histories, batch means over 25 batches after 10% burn-in"
)
ASSUMPTIONS = [
    "the limit of the Markov chain is not exhibited: irreducibility/aperiodicity and the convergence of finite runs are not verified",
    "PCG64 quality and Haar-uniformity of the normalised Gaussian quaternion are assumed (ensemble runs corroborate only)",
    "the detailed-balance residual compares measured acceptance probabilities with closed-form densities; proposal "
    "densities g are the textbook ones (symmetric for Ball/Box/Sphere/Rotation/log-volume steps, 1/V and 1/(N+1) for "
    "exchange) — their agreement with the sampled operations is C10's correspondence",
    "calculators are the harness' own ASE calculators (harmonic, dipole-in-field, external field, zero energy) with exact-compare caching",
    "ensemble deviations gate only above 6 sigma reproduced on three independent seeds",
]

_ENV: dict = {}
ENSEMBLE_LOG: list = []


# --------------------------------------------------------------------------- real objects


class Scripted:
    """stands for `context.rng` while an acceptance probability is measured: `random()` returns the scripted number"""

    def __init__(self, u=0.5):
        self.u = u
        self.draws = 0

    def random(self):
        self.draws += 1
        return self.u

    def __getattr__(self, name):
        raise AttributeError(f"scripted generator: unexpected method {name}")


def env():
    if _ENV:
        return _ENV
    import numpy as np
    import quansino.mc  # noqa: F401  (import order, C08)
    from ase import Atoms
    from ase.calculators.calculator import Calculator
    from ase.units import _e, _hplanck, _Nav, fs, kB
    from numpy.random import PCG64, Generator
    from quansino.integrators.displacement import Verlet
    from quansino.mc.canonical import Canonical, HamiltonianCanonical
    from quansino.mc.gcmc import GrandCanonical
    from quansino.mc.isobaric import Isobaric
    from quansino.moves.cell import CellMove
    from quansino.moves.displacement import DisplacementMove, HamiltonianDisplacementMove
    from quansino.moves.exchange import ExchangeMove
    from quansino.operations.cell import IsotropicDeformation
    from quansino.operations.displacement import Ball, Box, Rotation, Sphere, Translation, TranslationRotation
    from quansino.utils.dynamics import maxwell_boltzmann_distribution

    class FastCalc(Calculator):
        """ASE calculator with an exact-compare cache (ASE's own `check_state` costs ~1 ms per call).  `atoms` and
        `results` behave as ASE documents them: `atoms` is a snapshot of the configuration the results belong to."""

        implemented_properties = ("energy", "forces")

        def __init__(self):
            super().__init__()
            self.evals = 0

        def _stale(self, atoms):
            a = self.atoms
            return (a is None or len(a) != len(atoms) or not np.array_equal(a.positions, atoms.positions)
                    or not np.array_equal(a.cell.array, atoms.cell.array)
                    or not np.array_equal(a.numbers, atoms.numbers))

        def get_property(self, name, atoms=None, allow_calculation=True):
            if atoms is None:
                atoms = self.atoms
            if name not in self.results or self._stale(atoms):
                a = self.atoms
                if a is not None and len(a) == len(atoms) and np.array_equal(a.numbers, atoms.numbers):
                    a.positions[:] = atoms.positions
                    a.cell[:] = atoms.cell.array
                else:
                    self.atoms = atoms.copy()
                self.evals += 1
                self.results = self.compute(atoms)
            r = self.results[name]
            return r.copy() if isinstance(r, np.ndarray) else r

    class Harmonic(FastCalc):
        """E = k/2 sum |r_i - a_i|^2 ; anchors `a` per atom, or one common centre for any number of atoms"""

        def __init__(self, k, anchors):
            super().__init__()
            self.k = float(k)
            self.anchors = np.asarray(anchors, dtype=float)

        def compute(self, atoms):
            d = atoms.positions - self.anchors
            return {"energy": 0.5 * self.k * float((d * d).sum()), "forces": -self.k * d}

    class Dipole(FastCalc):
        """E = -pE cos(theta), theta = angle between the bond r_1 - r_0 and the z axis (rigid diatomic, moved by
        rotations/translations only: no forces needed)"""

        def __init__(self, pE):
            super().__init__()
            self.pE = float(pE)

        def compute(self, atoms):
            b = atoms.positions[1] - atoms.positions[0]
            return {"energy": -self.pE * float(b[2] / math.sqrt(float(b @ b))), "forces": np.zeros((len(atoms), 3))}

    class Zero(FastCalc):
        def compute(self, atoms):
            return {"energy": 0.0, "forces": np.zeros((len(atoms), 3))}

    class Place:
        """user-defined operation: put the centroid of the moving atoms at `target` (used to propose the exact
        reverse of a deletion through the real ExchangeMove)"""

        def __init__(self, target):
            self.target = np.asarray(target, dtype=float)

        def calculate(self, context):
            return (self.target - context.atoms.positions[common.get_moving(context)].mean(axis=0))[None, :]

        def to_dict(self):
            return {"name": "Place"}

    _ENV.update(
        np=np, Atoms=Atoms, kB=kB, h=_hplanck, Nav=_Nav, e=_e, fs=fs, PCG64=PCG64, Generator=Generator,
        Canonical=Canonical, HamiltonianCanonical=HamiltonianCanonical, GrandCanonical=GrandCanonical,
        Isobaric=Isobaric, CellMove=CellMove, DisplacementMove=DisplacementMove,
        HamiltonianDisplacementMove=HamiltonianDisplacementMove, ExchangeMove=ExchangeMove,
        IsotropicDeformation=IsotropicDeformation, Ball=Ball, Box=Box, Sphere=Sphere, Rotation=Rotation,
        Translation=Translation, TranslationRotation=TranslationRotation, Verlet=Verlet, mbd=maxwell_boltzmann_distribution,
        Harmonic=Harmonic, Dipole=Dipole, Zero=Zero, Place=Place,
    )
    return _ENV


SPECIES = {"Ar": ("Ar", None), "He": ("He", None), "Xe": ("Xe", None), "N2": ("N2", 1.10), "CO": ("CO", 1.13),
           "HF": ("HF", 0.92), "HCl": ("HCl", 1.27)}


def template(sp):
    """exchange / dipole particle: an atom or a diatomic along z, centred on the origin"""
    E = env()
    sym, d = SPECIES[sp]
    if d is None:
        return E["Atoms"](sym, positions=[[0.0, 0.0, 0.0]])
    return E["Atoms"](sym, positions=[[0.0, 0.0, -d / 2], [0.0, 0.0, d / 2]])


def log_wavelength(mass_amu, T):
    """log of the thermal de Broglie wavelength h / sqrt(2 pi m kT) in Angstrom (m = M / N_A, CODATA as in ase.units)"""
    E = env()
    m = mass_amu * 1e-3 / E["Nav"]
    kT = E["kB"] * T * E["e"]
    return math.log(E["h"]) - 0.5 * math.log(2 * math.pi * m * kT) + 10 * math.log(10.0)


def accept_prob(crit, ctx, iters=130):
    """the acceptance probability of `crit.evaluate(ctx)` = sup{u : accepted}, by bisection on the scripted uniform
    number; returns (p, number of evaluate calls, draws per call ok)"""
    saved = ctx.rng
    s = Scripted()
    ctx.rng = s
    calls = 0
    try:
        s.u = 0.0
        calls += 1
        if not crit.evaluate(ctx):
            return 0.0, calls, s.draws == calls
        s.u = 1.0 - 2.0 ** -53
        calls += 1
        if crit.evaluate(ctx):
            return 1.0, calls, s.draws == calls
        lo, hi = 0.0, s.u
        for _ in range(iters):
            mid = 0.5 * (lo + hi)
            if mid <= lo or mid >= hi:
                break
            s.u = mid
            calls += 1
            if crit.evaluate(ctx):
                lo = mid
            else:
                hi = mid
        return hi, calls, s.draws == calls
    finally:
        ctx.rng = saved


# --------------------------------------------------------------------------- building a simulation at a given state


def cell_of(c):
    np = env()["np"]
    return np.array(c["cell"], dtype=float).reshape(3, 3)


def make_calc(c):
    E = env()
    np = E["np"]
    k = c["calc"]
    if k == "harmonic":
        return E["Harmonic"](c["k"], np.array(c["anchors"], dtype=float).reshape(-1, 3))
    if k == "field":
        return E["Harmonic"](c["k"], np.array(c["centre"], dtype=float))
    if k == "dipole":
        return E["Dipole"](c["pE"])
    return E["Zero"]()


def energy_closed_form(c, positions):
    """the potential energy of a configuration from the formula, independently of the calculator object"""
    np = env()["np"]
    k = c["calc"]
    if k == "harmonic":
        d = positions - np.array(c["anchors"], dtype=float).reshape(-1, 3)
        return 0.5 * c["k"] * float((d * d).sum())
    if k == "field":
        d = positions - np.array(c["centre"], dtype=float)
        return 0.5 * c["k"] * float((d * d).sum())
    if k == "dipole":
        b = positions[1] - positions[0]
        return -c["pE"] * float(b[2]) / math.sqrt(float(b @ b))
    return 0.0


def make_operation(c):
    E = env()
    op = c["op"]
    if op == "ball":
        return E["Ball"](c["step"])
    if op == "box":
        return E["Box"](c["step"])
    if op == "sphere":
        return E["Sphere"](c["step"])
    if op == "ball+box":
        return E["Ball"](c["step"]) + E["Box"](0.5 * c["step"])
    if op == "rotation":
        return E["Rotation"]()
    if op == "translation-rotation":
        return E["TranslationRotation"]()
    if op == "translation":
        return E["Translation"]()
    raise ValueError(op)


def make_sim(c, state, seed, max_cycles=1):
    """a real simulation object (public API) standing at `state`, with the case's move added under the name 'm'"""
    E = env()
    np = E["np"]
    atoms = E["Atoms"](numbers=state["numbers"], positions=np.array(state["positions"], dtype=float).reshape(-1, 3),
                       cell=np.array(state["cell"], dtype=float).reshape(3, 3), pbc=c.get("pbc", True))
    if state.get("masses") is not None:
        atoms.set_masses(state["masses"])
    atoms.calc = make_calc(c)
    sysname = c["sys"]
    if sysname in ("harmonic", "dipole"):
        mc = E["Canonical"](atoms, temperature=c["T"], max_cycles=max_cycles, seed=seed)
        labels = np.array(c["labels"])
        move = E["DisplacementMove"](labels, make_operation(c))
        if c.get("composite_move"):
            # a composite has no default criteria: the user passes the canonical one
            from quansino.mc.criteria import CanonicalCriteria

            mc.add_move(move * 2, criteria=CanonicalCriteria(), name="m")
        else:
            mc.add_move(move, name="m")
    elif sysname == "hamiltonian":
        mc = E["HamiltonianCanonical"](atoms, temperature=c["T"], max_cycles=max_cycles, seed=seed)
        move = E["HamiltonianDisplacementMove"](operation=E["Verlet"](dt=c["dt"], max_steps=c["nsteps"]))
        mc.add_move(move, name="m")
    elif sysname == "isobaric":
        mc = E["Isobaric"](atoms, temperature=c["T"], pressure=c["P"], max_cycles=max_cycles, seed=seed)
        mc.add_move(E["CellMove"](E["IsotropicDeformation"](c["max_strain"])), name="m")
    elif sysname == "gc":
        tmpl = template(c["species"])
        mc = E["GrandCanonical"](atoms, exchange_atoms=tmpl, temperature=c["T"], chemical_potential=c["mu"],
                                 number_of_exchange_particles=state["N"], max_cycles=max_cycles, seed=seed)
        xm = E["ExchangeMove"](np.array(state["labels"], dtype=int), make_operation(c))
        if c.get("composite"):
            # `move * n`: n particles exchanged in one trial (delta = +-n), with the shipped criteria
            from quansino.mc.criteria import GrandCanonicalCriteria
            mc.add_move(xm * int(c["composite"]), criteria=GrandCanonicalCriteria(), name="m")
        else:
            mc.add_move(xm, name="m")
    else:
        raise ValueError(sysname)
    mc.validate_simulation()
    return mc


def snapshot(atoms):
    return {"numbers": atoms.numbers.tolist(), "positions": atoms.positions.copy(), "cell": atoms.cell.array.copy(),
            "masses": atoms.get_masses().tolist()}


def same_state(atoms, snap):
    np = env()["np"]
    return (len(atoms) == len(snap["numbers"]) and atoms.numbers.tolist() == snap["numbers"]
            and np.array_equal(atoms.positions, snap["positions"]) and np.array_equal(atoms.cell.array, snap["cell"]))


# --------------------------------------------------------------------------- (a) detailed-balance residual


def gen_db_case(rng, sysname):
    """a JSON-able description of one pair experiment; every number from `rng`"""
    kB = 8.617333262e-5
    T = math.exp(rng.uniform(math.log(30.0), math.log(3000.0)))
    kT = kB * T
    c = {"sys": sysname, "T": T, "seed": rng.randrange(1, 2**31), "gseed": rng.randrange(1, 2**31)}
    if sysname in ("harmonic", "hamiltonian"):
        n = rng.randint(1, 6)
        k = math.exp(rng.uniform(math.log(0.05), math.log(20.0)))
        sig = math.sqrt(kT / k)
        c.update(calc="harmonic", k=k, n=n, sigma=sig, species="Ar", pbc=False,
                 cell=[30.0, 0, 0, 0, 30.0, 0, 0, 0, 30.0], labels=list(range(n)))
        if sysname == "harmonic":
            c["op"] = rng.choice(["ball", "box", "sphere", "ball+box", "ball", "box"])
            c["step"] = sig * math.exp(rng.uniform(math.log(0.2), math.log(4.0)))
            c["composite_move"] = n >= 2 and rng.random() < 0.25
            if rng.random() < 0.2:  # two atoms share a label: they move together
                c["labels"] = [max(0, i - 1) for i in range(n)]
        else:
            c["dt"] = rng.choice([0.5, 1.0, 2.0, 5.0, 10.0, 20.0])
            c["nsteps"] = rng.randint(1, 12)
    elif sysname == "dipole":
        x = rng.choice([-1, 1]) * math.exp(rng.uniform(math.log(0.05), math.log(12.0)))
        c.update(calc="dipole", pE=x * kT, x=x, species=rng.choice(["N2", "CO", "HF", "HCl"]), labels=[0, 0],
                 op=rng.choice(["rotation", "translation-rotation"]), pbc=True)
        c["cell"] = gen_cell(rng, rng.uniform(300.0, 3000.0))
    elif sysname == "isobaric":
        n = rng.randint(1, 9)
        vmean = math.exp(rng.uniform(math.log(100.0), math.log(20000.0)))
        c.update(n=n, P=(n + 1) * kT / vmean * math.exp(rng.uniform(-1.0, 1.0)), species="Ar", pbc=True,
                 max_strain=math.exp(rng.uniform(math.log(0.005), math.log(0.4))),
                 cell=gen_cell(rng, vmean * math.exp(rng.uniform(-1.2, 1.2))))
        if rng.random() < 0.5:
            c["calc"] = "zero"
        else:
            c.update(calc="harmonic", k=math.exp(rng.uniform(math.log(0.001), math.log(0.5))) * kT)
    elif sysname == "gc":
        sp = rng.choice(["Ar", "He", "Xe", "N2", "CO", "Ar"])
        vol = math.exp(rng.uniform(math.log(60.0), math.log(8000.0)))
        lam = math.exp(rng.uniform(math.log(0.3), math.log(25.0)))
        c.update(species=sp, lam=lam, cell=gen_cell(rng, vol), n=rng.choice([0, 0, 1, 1, 2, 3, 5, 8, 13]),
                 nframe=rng.choice([0, 0, 2]), pbc=True,
                 op="translation-rotation" if (SPECIES[sp][1] and rng.random() < 0.6) else "translation")
        if rng.random() < 0.5:
            c["calc"] = "zero"
        else:
            c.update(calc="field", k=math.exp(rng.uniform(math.log(0.001), math.log(0.2))) * kT, centre=None)
    return c


def gen_cell(rng, volume):
    """a cubic, orthorhombic or triclinic cell (row-major 9 numbers) of the given volume"""
    kind = rng.choice(["cubic", "ortho", "tri"])
    if kind == "cubic":
        m = [[1.0, 0, 0], [0, 1.0, 0], [0, 0, 1.0]]
    elif kind == "ortho":
        m = [[rng.uniform(0.6, 1.6), 0, 0], [0, rng.uniform(0.6, 1.6), 0], [0, 0, rng.uniform(0.6, 1.6)]]
    else:
        m = [[rng.uniform(0.7, 1.4), 0, 0], [rng.uniform(-0.4, 0.4), rng.uniform(0.7, 1.4), 0],
             [rng.uniform(-0.4, 0.4), rng.uniform(-0.4, 0.4), rng.uniform(0.7, 1.4)]]
    det = m[0][0] * m[1][1] * m[2][2]
    s = (volume / det) ** (1.0 / 3.0)
    return [s * v for row in m for v in row]


def initial_state(c):
    """a typical state x of the system (drawn from a generator seeded by the case, not from the simulation's)"""
    E = env()
    np = E["np"]
    g = E["Generator"](E["PCG64"](c["gseed"]))
    cell = cell_of(c)
    sysname = c["sys"]
    if sysname in ("harmonic", "hamiltonian"):
        n = c["n"]
        anchors = 15.0 + g.uniform(-6.0, 6.0, (n, 3))
        c["anchors"] = anchors.ravel().tolist()
        pos = anchors + c["sigma"] * g.standard_normal((n, 3))
        return {"numbers": [18] * n, "positions": pos, "cell": cell, "masses": None}
    if sysname == "dipole":
        t = template(c["species"])
        q = g.standard_normal(4)
        w, x, y, z = q / np.linalg.norm(q)
        rot = np.array([[1 - 2 * (y * y + z * z), 2 * (x * y - w * z), 2 * (x * z + w * y)],
                        [2 * (x * y + w * z), 1 - 2 * (x * x + z * z), 2 * (y * z - w * x)],
                        [2 * (x * z - w * y), 2 * (y * z + w * x), 1 - 2 * (x * x + y * y)]])
        pos = t.positions @ rot.T + g.uniform(0.2, 0.8, 3) @ cell
        return {"numbers": t.numbers.tolist(), "positions": pos, "cell": cell, "masses": None}
    if sysname == "isobaric":
        n = c["n"]
        frac = g.uniform(0.0, 1.0, (n, 3))
        pos = frac @ cell
        if c["calc"] == "harmonic":
            c["anchors"] = (g.uniform(0.0, 1.0, (n, 3)) @ cell).ravel().tolist()
        return {"numbers": [18] * n, "positions": pos, "cell": cell, "masses": None}
    if sysname == "gc":
        t = template(c["species"])
        n, nf = c["n"], c["nframe"]
        numbers, pos, labels = [], [], []
        for _ in range(nf):
            numbers.append(6)
            pos.append(g.uniform(0.0, 1.0, 3) @ cell)
            labels.append(-1)
        for i in range(n):
            ctr = g.uniform(0.0, 1.0, 3) @ cell
            for a in range(len(t)):
                numbers.append(int(t.numbers[a]))
                pos.append(t.positions[a] + ctr)
                labels.append(i)
        if c["calc"] == "field":
            c["centre"] = (np.array([0.5, 0.5, 0.5]) @ cell).tolist()
        return {"numbers": numbers, "positions": np.array(pos, dtype=float).reshape(-1, 3), "cell": cell,
                "masses": None, "labels": labels, "N": n}
    raise ValueError(sysname)


def log_weight(c, snap, extra=None):
    """log of the textbook target density at a state (closed forms, independent of the code under test)"""
    E = env()
    np = E["np"]
    kT = E["kB"] * c["T"]
    pos = np.asarray(snap["positions"], dtype=float).reshape(-1, 3)
    en = energy_closed_form(c, pos)
    sysname = c["sys"]
    if sysname in ("harmonic", "dipole"):
        return -en / kT
    if sysname == "hamiltonian":
        p = np.asarray(extra["momenta"], dtype=float)
        m = np.asarray(snap["masses"], dtype=float)[:, None]
        return -(en + float((p * p / (2 * m)).sum())) / kT
    if sysname == "isobaric":
        vol = abs(float(np.linalg.det(np.asarray(snap["cell"], dtype=float).reshape(3, 3))))
        n = len(snap["numbers"])
        return (n + 1) * math.log(vol) - (en + c["P"] * vol) / kT  # density in ln V
    if sysname == "gc":
        n = extra["N"]
        mass = float(template(c["species"]).get_masses().sum())
        return (c["mu"] * n - en) / kT - 3 * n * log_wavelength(mass, c["T"])
    raise ValueError(sysname)


def db_experiment(c):
    """run one pair experiment on the real code; returns the observation dictionary"""
    E = env()
    np = E["np"]
    x0 = initial_state(c)
    sysname = c["sys"]
    kT = E["kB"] * c["T"]
    if sysname == "gc":
        vol = abs(float(np.linalg.det(cell_of(c))))
        mass = float(template(c["species"]).get_masses().sum())
        c["mu"] = kT * (math.log(c["lam"]) + 3 * log_wavelength(mass, c["T"]) - math.log(vol))
    mc = make_sim(c, x0, c["seed"])
    ctx = mc.context
    atoms = mc.atoms
    storage = mc.moves["m"]
    move, crit = storage.move, storage.criteria
    xs = snapshot(atoms)
    obs = {"sys": sysname, "criteria": type(crit).__name__, "move": type(move).__name__}
    rec = {}
    if sysname == "hamiltonian":
        mbd = E["mbd"]

        def dist(context):
            mbd(context)
            rec["p"] = context.atoms.get_momenta().copy()

        move.distribution = dist
    if sysname == "gc":
        obs["N"] = x0["N"]
        # the proposal must choose its DIRECTION independently of the state (the textbook ratio above assumes it): with
        # the direction forced (bias 0 / 1) the move deletes / inserts, and a deletion from an empty system is an invalid
        # move (stay at x), never an insertion in disguise. After an ACCEPTED trial the particle counter moves by ±1
        # particle (not by the number of atoms).
        probes = {}
        for bias, name in ((0.0, "forced-delete"), (1.0, "forced-insert")):
            mcp = make_sim(c, x0, c["seed"] + 17)
            mvp = mcp.moves["m"].move
            mvp.bias_towards_insert = bias
            okp = bool(mvp(mcp.context))
            d = int(mcp.context.particle_delta)
            rec_p = {"moved": okp, "delta": d, "natoms": len(mcp.atoms)}
            if okp:
                mcp.save_state()
                rec_p["counter"] = int(mcp.context.number_of_exchange_particles)
            probes[name] = rec_p
        obs["probes"] = probes
        obs["natoms0"] = len(atoms)
    ok = bool(move(ctx))
    obs["moved"] = ok
    if not ok:
        return obs
    ys = snapshot(atoms)
    direction = ""
    if sysname == "gc":
        direction = "insert" if ctx.particle_delta > 0 else "delete"
        obs["direction"] = direction
        obs["delta"] = int(ctx.particle_delta)
    pxy, calls, draws_ok = accept_prob(crit, ctx)
    obs.update(pxy=pxy, calls=calls, one_draw=draws_ok)
    # the textbook weights and proposal densities
    ex = ey = None
    lgxy = lgyx = 0.0
    if sysname == "hamiltonian":
        ex = {"momenta": rec["p"]}
        ey = {"momenta": atoms.get_momenta().copy()}
    if sysname == "gc":
        vol = abs(float(np.linalg.det(cell_of(c))))
        n = x0["N"]
        ex = {"N": n}
        if direction == "insert":
            ey = {"N": n + 1}
            lgxy, lgyx = -math.log(vol), -math.log(n + 1)  # density 1/V of the point, 1/(N+1) of the particle
        else:
            ey = {"N": n - 1}
            lgxy, lgyx = -math.log(n), -math.log(vol)
    obs["lwx"] = log_weight(c, xs, ex)
    obs["lwy"] = log_weight(c, ys, ey)
    obs["lgxy"], obs["lgyx"] = lgxy, lgyx
    obs["dE_over_kT"] = (energy_closed_form(c, ys["positions"]) - energy_closed_form(c, xs["positions"])) / kT
    # rejected mass stays at x: the driver's revert gives back x exactly
    if sysname == "gc" and direction == "delete":
        # which atoms the trial removed, from what can be seen from outside: the rows of x that are no longer in y
        ypos = {tuple(r) for r in np.asarray(ys["positions"]).tolist()}
        gone = [i for i, r in enumerate(np.asarray(xs["positions"]).tolist()) if tuple(r) not in ypos]
        deleted = E["Atoms"](numbers=[xs["numbers"][i] for i in gone], positions=np.asarray(xs["positions"])[gone],
                             cell=cell_of(c), pbc=True)
        deleted_label = int(np.array(x0["labels"])[gone][0])
    mc.revert_state()
    obs["restored"] = bool(same_state(atoms, xs))
    # the reverse trial y -> x on a second simulation object standing at y
    c2 = dict(c)
    if sysname == "gc":
        t = template(c["species"])
        if direction == "insert":
            labels = list(x0["labels"]) + [x0["N"]] * len(t)
            sy = dict(ys, labels=labels, N=x0["N"] + 1)
            mc2 = make_sim(c2, sy, c["seed"] + 1)
            mv2 = mc2.moves["m"].move
            mv2.to_delete_label = x0["N"]
        else:
            keep = [i for i, l in enumerate(x0["labels"]) if l != deleted_label]
            labels = [x0["labels"][i] for i in keep]
            sy = dict(ys, labels=labels, N=x0["N"] - 1)
            mc2 = make_sim(c2, sy, c["seed"] + 1)
            mv2 = mc2.moves["m"].move
            mv2.operation = E["Place"](deleted.positions.mean(axis=0))
            mv2.to_add_atoms = deleted
        ok2 = bool(mv2(mc2.context))
        obs["moved_back"] = ok2
        if not ok2:
            return obs
        obs["delta_back"] = int(mc2.context.particle_delta)
        back = energy_closed_form(c, mc2.atoms.positions)
        obs["back_energy_err"] = abs(back - energy_closed_form(c, xs["positions"])) / kT
    elif sysname == "hamiltonian":
        mc2 = make_sim(c2, ys, c["seed"] + 1)
        mv2 = mc2.moves["m"].move
        py = ey["momenta"]
        mv2.distribution = lambda context: context.atoms.set_momenta(-py)
        ok2 = bool(mv2(mc2.context))
        obs["moved_back"] = ok2
        if not ok2:
            return obs
        scale = max(1e-300, float(np.abs(xs["positions"] - ys["positions"]).max()))
        obs["reversibility_err"] = float(np.abs(mc2.atoms.positions - xs["positions"]).max()) / scale
        pscale = max(1e-300, float(np.abs(rec["p"]).max()))
        obs["reversibility_err_p"] = float(np.abs(mc2.atoms.get_momenta() + rec["p"]).max()) / pscale
    else:
        mc2 = make_sim(c2, ys, c["seed"] + 1)
        if sysname == "isobaric":
            mc2.atoms.set_cell(xs["cell"], scale_atoms=False)
        mc2.atoms.set_positions(xs["positions"], apply_constraint=False)
    crit2 = mc2.moves["m"].criteria
    pyx, calls2, draws_ok2 = accept_prob(crit2, mc2.context)
    obs.update(pyx=pyx, calls_back=calls2, one_draw=draws_ok and draws_ok2)
    return obs


DB_SYSTEMS = ["harmonic", "harmonic", "dipole", "isobaric", "isobaric", "gc", "gc", "gc", "hamiltonian"]


class DetailedBalance(common.Suite):
    name = "db-residual"

    def cases(self, rng, tier):
        n = 270 if tier == "quick" else 5400
        for i in range(n):
            yield gen_db_case(rng, DB_SYSTEMS[i % len(DB_SYSTEMS)])

    def real(self, case):
        return db_experiment(dict(case))

    @staticmethod
    def tag(case, obs):
        s = case["sys"]
        if s == "gc":
            return "gc-" + obs.get("direction", "none")
        return s

    def oracle(self, case, obs):
        tag = self.tag(case, obs)
        if "exception" in obs:
            return [(f"db-residual:{tag}:exception:{obs['exception']}", obs.get("message", "") + obs.get("trace", "")[-600:])]
        out = []
        if case["sys"] == "gc" and "probes" in obs:
            n0, na0 = obs["N"], obs["natoms0"]
            fd, fi = obs["probes"]["forced-delete"], obs["probes"]["forced-insert"]
            if n0 == 0 and fd["moved"]:
                out.append(("db-residual:gc:deletion-from-empty-system-proposes-something",
                            f"a deletion drawn at N = 0 returned a valid move (delta {fd['delta']}, {fd['natoms']} atoms): the "
                            "0 -> 1 edge is then proposed more often than 1 -> 0"))
            if n0 > 0 and not (fd["moved"] and fd["delta"] == -1 and fd.get("counter") == n0 - 1 and fd["natoms"] < na0):
                out.append(("db-residual:gc:forced-deletion", f"N = {n0}: {fd}"))
            if not (fi["moved"] and fi["delta"] == 1 and fi.get("counter") == n0 + 1 and fi["natoms"] > na0):
                out.append(("db-residual:gc:forced-insertion", f"N = {n0}: {fi}"))
            if out:
                return out
        if not obs.get("moved"):
            if case["sys"] == "gc" and case["n"] == 0:
                return []  # a deletion from an empty reservoir cannot be proposed
            return [(f"db-residual:{tag}:move-failed", "the real move returned False on a valid state")]
        if not obs.get("restored", True):
            out.append((f"reject-restores:{tag}", "revert_state() after the trial did not give back the state x exactly"))
        if obs.get("moved_back") is False:
            out.append((f"db-residual:{tag}:reverse-move-failed", "the reverse trial could not be proposed"))
            return out
        if not obs.get("one_draw", True):
            out.append((f"db-residual:{tag}:draws", "evaluate() did not draw exactly one uniform number per call"))
        if case["sys"] == "gc":
            want = 1 if obs["direction"] == "insert" else -1
            if obs.get("delta") != want or obs.get("delta_back") != -want:
                out.append((f"db-residual:{tag}:particle-delta", f"delta {obs.get('delta')} / back {obs.get('delta_back')}"))
            if obs.get("back_energy_err", 0.0) > 1e-9:
                out.append((f"db-residual:{tag}:reverse-state", "the reverse trial did not reproduce the state x"))
        if case["sys"] == "hamiltonian":
            if obs.get("reversibility_err", 0.0) > 1e-7 or obs.get("reversibility_err_p", 0.0) > 1e-7:
                out.append(("db-residual:hamiltonian:not-reversible",
                            f"integrating back from (q', -p') missed (q, -p): {obs.get('reversibility_err')}, "
                            f"{obs.get('reversibility_err_p')}"))
        pxy, pyx = obs["pxy"], obs["pyx"]
        if pxy <= 0.0 and pyx <= 0.0:
            out.append((f"db-residual:{tag}:both-zero", "neither direction is ever accepted"))
            return out
        if pxy <= 0.0 or pyx <= 0.0:
            # one direction never accepted: the textbook flow the other way must be below the resolution as well
            la = obs["lwx"] + obs["lgxy"] if pxy <= 0.0 else obs["lwy"] + obs["lgyx"]
            lb = obs["lwy"] + obs["lgyx"] if pxy <= 0.0 else obs["lwx"] + obs["lgxy"]
            if la - lb > -700.0:
                out.append((f"db-residual:{tag}", f"one direction has acceptance probability 0 but the textbook ratio is exp({la - lb:.6g})"))
            return out
        lhs = obs["lwx"] + obs["lgxy"] + math.log(pxy)
        rhs = obs["lwy"] + obs["lgyx"] + math.log(pyx)
        # resolution of the bisection (absolute 2^-53 on p) and of the exponent arithmetic
        tol = 1e-8 + 2.0 ** -50 / min(pxy, pyx) + 1e-13 * (abs(obs["lwx"]) + abs(obs["lwy"]))
        if abs(lhs - rhs) > tol:
            out.append((f"db-residual:{tag}",
                        f"pi(x) g(x->y) p(x->y) / (pi(y) g(y->x) p(y->x)) = exp({lhs - rhs:.9g}); p(x->y)={pxy!r}, "
                        f"p(y->x)={pyx!r}, log pi(x)={obs['lwx']!r}, log pi(y)={obs['lwy']!r}, log g={obs['lgxy']!r}/{obs['lgyx']!r}"))
        return out

    def classify(self, case, obs):
        if not obs.get("moved") or "pxy" not in obs or "pyx" not in obs:
            return None
        tag = self.tag(case, obs)
        op = case.get("op", "")
        if case.get("composite_move"):
            op += "*2"
        if case["sys"] in ("isobaric", "gc"):
            op = (op + "/" if op else "") + case["calc"]
        way = "downhill" if obs["pxy"] >= 1.0 else ("uphill" if obs["pyx"] >= 1.0 else "both<1")
        return f"{tag}:{op}:{way}"


# --------------------------------------------------------------------------- (b) fixed-seed ensemble runs


def batch_stats(x, expected, nb=25, burn=0.1):
    """mean, batch-means standard error and z-score of a time series after burn-in"""
    np = env()["np"]
    x = np.asarray(x, dtype=float)
    x = x[int(len(x) * burn):]
    m = len(x) // nb
    b = x[: m * nb].reshape(nb, m).mean(axis=1)
    mean = float(b.mean())
    se = float(b.std(ddof=1) / math.sqrt(nb))
    z = (mean - expected) / se if se > 0 else (0.0 if mean == expected else math.inf)
    return {"mean": mean, "se": se, "expected": expected, "z": z}


def coth_minus_inv(x):
    return 1.0 / math.tanh(x) - 1.0 / x


def ensemble_specs(tier):
    """(system key, parameters, steps) — every run is `steps` calls of the driver's step (= max_cycles trials each)"""
    q = tier == "quick"
    specs = [
        ("harmonic", {"op": "ball", "n": 3, "T": 300.0, "k": 1.0, "step": 2.0}, 5000 if q else 50000),
        ("dipole", {"op": "rotation", "x": 2.0, "T": 300.0, "species": "CO"}, 12000 if q else 150000),
        ("isobaric", {"n": 3, "T": 300.0, "vmean": 1000.0, "max_strain": 0.25}, 12000 if q else 150000),
        # accessible volume = half the cell (what the acceptance rule is told; insertions still land anywhere in the cell,
        # which an ideal gas cannot tell), and the SAME simulation object first used at another temperature
        ("gc", {"species": "Ar", "lam": 6.0, "T": 300.0, "vol": 1000.0, "op": "translation", "n0": 6, "vacc": 0.5,
                "T0": 650.0}, 12000 if q else 150000),
        # an EMPTY box and the driver's default number of cycles per step: the gas has to appear all the same
        ("gc", {"species": "Ar", "lam": 3.0, "T": 300.0, "vol": 1000.0, "op": "translation", "n0": 0, "default_cycles": True},
         4000 if q else 40000),
        # two particles exchanged per trial (`move * 2`, delta = +-2) with the shipped criteria
        ("gc", {"species": "Ar", "lam": 3.0, "T": 300.0, "vol": 1000.0, "op": "translation", "n0": 3, "composite": 2},
         4000 if q else 40000),
    ]
    if not q:
        specs += [
            ("harmonic", {"op": "box", "n": 4, "T": 500.0, "k": 0.5, "step": 1.5}, 40000),
            ("harmonic", {"op": "sphere", "n": 2, "T": 150.0, "k": 3.0, "step": 1.2}, 60000),
            ("harmonic", {"op": "ball+box", "n": 3, "T": 300.0, "k": 1.0, "step": 1.5}, 50000),
            ("harmonic", {"op": "ball", "n": 4, "T": 300.0, "k": 1.0, "step": 1.5, "composite_move": True}, 40000),
            ("hamiltonian", {"n": 3, "T": 300.0, "k": 1.0, "dt": 10.0, "nsteps": 8}, 30000),
            ("dipole", {"op": "translation-rotation", "x": -5.0, "T": 200.0, "species": "HCl"}, 150000),
            ("dipole", {"op": "rotation", "x": 0.5, "T": 600.0, "species": "N2"}, 150000),
            ("isobaric", {"n": 1, "T": 500.0, "vmean": 400.0, "max_strain": 0.4}, 150000),
            ("isobaric", {"n": 7, "T": 300.0, "vmean": 3000.0, "max_strain": 0.15, "cell": "tri"}, 150000),
            ("gc", {"species": "Xe", "lam": 1.5, "T": 400.0, "vol": 500.0, "op": "translation", "n0": 0}, 150000),
            ("gc", {"species": "N2", "lam": 4.0, "T": 300.0, "vol": 2000.0, "op": "translation-rotation", "n0": 3}, 120000),
            ("gc", {"species": "Ar", "lam": 5.0, "T": 300.0, "vol": 800.0, "op": "translation", "n0": 5, "mixed": True,
                    "nframe": 2}, 60000),
        ]
    return specs


def run_ensemble(key, p, steps, seed):
    """one fixed-seed history through the public API; returns {observable: stats}"""
    E = env()
    np = E["np"]
    kT = E["kB"] * p["T"]
    g = E["Generator"](E["PCG64"](seed ^ 0x5EED))
    out = {}
    if key in ("harmonic", "hamiltonian"):
        n = p["n"]
        sig = math.sqrt(kT / p["k"])
        anchors = 15.0 + g.uniform(-5.0, 5.0, (n, 3))
        c = {"sys": key, "calc": "harmonic", "k": p["k"], "anchors": anchors.ravel().tolist(), "T": p["T"], "pbc": False,
             "labels": list(range(n)), "op": p.get("op"), "step": p.get("step", 0.0) * sig,
             "composite_move": p.get("composite_move", False), "dt": p.get("dt"), "nsteps": p.get("nsteps")}
        state = {"numbers": [18] * n, "positions": anchors + sig * g.standard_normal((n, 3)),
                 "cell": np.eye(3) * 30.0, "masses": None}
        mc = make_sim(c, state, seed, max_cycles=(1 if key == "hamiltonian" else n))
        es = np.empty(steps)
        acc = 0.0
        for i, _ in enumerate(mc.srun(steps)):
            es[i] = mc.context.last_potential_energy
            acc += mc.acceptance_rate
        out["potential_energy/kT"] = batch_stats(es / kT, 1.5 * n)
        # the reference energy must be the energy of the configuration the chain stands on
        out["_consistency"] = abs(mc.context.last_potential_energy - energy_closed_form(c, mc.atoms.positions)) / kT
        out["_acceptance"] = float(acc / steps)
    elif key == "dipole":
        x = p["x"]
        c = {"sys": "dipole", "calc": "dipole", "pE": x * kT, "T": p["T"], "species": p["species"], "labels": [0, 0],
             "op": p["op"], "pbc": True, "cell": (np.eye(3) * 12.0).ravel().tolist(), "gseed": seed ^ 0xD1}
        state = initial_state(c)
        mc = make_sim(c, state, seed, max_cycles=1)
        cs = np.empty(steps)
        bl = np.empty(steps)
        acc = 0.0
        for i, _ in enumerate(mc.srun(steps)):
            b = mc.atoms.positions[1] - mc.atoms.positions[0]
            bl[i] = math.sqrt(float(b @ b))
            cs[i] = b[2] / bl[i]
            acc += mc.acceptance_rate
        out["cos_theta"] = batch_stats(cs, coth_minus_inv(x))
        out["_bond_drift"] = float(np.abs(bl - bl[0]).max())
        out["_acceptance"] = float(acc / steps)
    elif key == "isobaric":
        n = p["n"]
        pressure = (n + 1) * kT / p["vmean"]
        cell = cell_of({"cell": gen_cell(FixedChoice(p.get("cell", "cubic")), p["vmean"])})
        c = {"sys": "isobaric", "calc": "zero", "T": p["T"], "P": pressure, "max_strain": p["max_strain"], "pbc": True}
        state = {"numbers": [18] * n, "positions": g.uniform(0, 1, (n, 3)) @ cell, "cell": cell, "masses": None}
        mc = make_sim(c, state, seed, max_cycles=1)
        vs = np.empty(steps)
        acc = 0.0
        for i, _ in enumerate(mc.srun(steps)):
            vs[i] = mc.atoms.get_volume()
            acc += mc.acceptance_rate
        out["volume*P/kT"] = batch_stats(vs * pressure / kT, n + 1.0)
        frac = np.linalg.solve(mc.atoms.cell.array.T, mc.atoms.positions.T).T
        out["_scaled_positions_kept"] = float(np.abs(frac - np.linalg.solve(cell.T, np.asarray(state["positions"]).T).T).max())
        out["_acceptance"] = float(acc / steps)
    elif key == "gc":
        t = template(p["species"])
        mass = float(t.get_masses().sum())
        lam = p["lam"]
        cell = np.eye(3) * p["vol"] ** (1.0 / 3.0)
        vacc = p["vol"] * p.get("vacc", 1.0)
        mu = kT * (math.log(lam) + 3 * log_wavelength(mass, p["T"]) - math.log(vacc))
        c = {"sys": "gc", "calc": "zero", "T": p["T"], "species": p["species"], "mu": mu, "op": p["op"], "pbc": True,
             "cell": cell.ravel().tolist(), "n": p["n0"], "nframe": p.get("nframe", 0), "gseed": seed ^ 0x6C,
             "composite": p.get("composite")}
        state = initial_state(c)
        mc = make_sim(c, state, seed, max_cycles=None if p.get("default_cycles") else 1)
        if "vacc" in p:
            mc.accessible_volume = vacc
        if "T0" in p:
            # a first stretch at another state point (same <N>): what was computed there must not stick to any object
            kT0 = E["kB"] * p["T0"]
            mc.temperature = p["T0"]
            mc.chemical_potential = kT0 * (math.log(lam) + 3 * log_wavelength(mass, p["T0"]) - math.log(vacc))
            for _ in mc.srun(300):
                pass
            mc.temperature = p["T"]
            mc.chemical_potential = mu
        nf = c["nframe"]
        if p.get("mixed"):
            mc.add_move(E["DisplacementMove"](np.array(state["labels"], dtype=int), E["Ball"](1.0)), name="d")
        ns = np.empty(steps)
        octs = np.zeros((steps, 8))
        cos1 = np.full(steps, np.nan)
        cos2 = np.full(steps, np.nan)
        na = len(t)
        acc = 0.0
        for i, _ in enumerate(mc.srun(steps)):
            npart = (len(mc.atoms) - nf) // na
            ns[i] = npart
            if npart:
                pos = mc.atoms.positions[nf:].reshape(npart, na, 3)
                ctr = pos.mean(axis=1)
                f = np.linalg.solve(cell.T, ctr.T).T % 1.0
                idx = (f[:, 0] >= 0.5) * 4 + (f[:, 1] >= 0.5) * 2 + (f[:, 2] >= 0.5)
                octs[i] = np.bincount(idx, minlength=8) / npart
                if na == 2:
                    b = pos[:, 1] - pos[:, 0]
                    cz = b[:, 2] / np.sqrt((b * b).sum(axis=1))
                    cos1[i] = cz.mean()
                    cos2[i] = (cz * cz).mean()
            else:
                octs[i] = 1.0 / 8.0
            acc += mc.acceptance_rate
        out["N/lambda"] = batch_stats(ns / lam, 1.0)
        burn = int(0.1 * steps)
        mean_n = ns[burn:].mean()
        out["var(N)/lambda"] = batch_stats((ns - mean_n) ** 2 / lam, 1.0)
        occ = ns > 0
        for o in range(8):
            out[f"octant{o}"] = batch_stats(octs[occ, o], 1.0 / 8.0)
        if na == 2 and p["op"] == "translation-rotation":
            ok = ~np.isnan(cos1)
            out["mol_cos"] = batch_stats(cos1[ok], 0.0)
            out["mol_cos2"] = batch_stats(cos2[ok], 1.0 / 3.0)
        out["_bookkeeping"] = float(abs(mc.number_of_exchange_particles - ns[-1]))
        if p.get("mixed"):
            lab = mc.moves["d"].move.labels
            out["_labels_len_mismatch"] = float(abs(len(lab) - len(mc.atoms)))
        out["_acceptance"] = float(acc / steps)
    else:
        raise ValueError(key)
    return out


class FixedChoice:
    """a stand-in for `random.Random` that makes `gen_cell` deterministic for the ensemble runs"""

    def __init__(self, kind):
        self.kind = kind

    def choice(self, _):
        return self.kind

    def uniform(self, a, b):
        return 0.5 * (a + b) + 0.21 * (b - a)


def worst(stats):
    zs = {k: v["z"] for k, v in stats.items() if isinstance(v, dict)}
    k = max(zs, key=lambda n: abs(zs[n]))
    return k, zs[k]


def ensemble_case(case):
    """first seed; two more independent seeds only when a deviation above 6 sigma shows up"""
    key, p, steps = case["system"], case["params"], case["steps"]
    runs = []
    seeds = [case["seed"]]
    st = run_ensemble(key, p, steps, seeds[0])
    runs.append(st)
    name, z = worst(st)
    if abs(z) > 6.0:
        r = common.sub_rng(case["seed"], "rerun")
        for _ in range(2):
            s = r.randrange(1, 2**31)
            seeds.append(s)
            runs.append(run_ensemble(key, p, steps, s))
    return {"seeds": seeds, "runs": runs}


def _pool_job(case):
    import warnings

    warnings.simplefilter("ignore")
    try:
        return ensemble_case(case)
    except Exception as ex:  # noqa: BLE001
        import traceback

        return {"exception": type(ex).__name__, "message": str(ex)[:300], "trace": traceback.format_exc()[-1500:]}


class EnsembleRuns(common.Suite):
    name = "ensemble-average"

    def __init__(self):
        self._cases = []
        self._done = {}

    def cases(self, rng, tier):
        self._cases = []
        for key, p, steps in ensemble_specs(tier):
            self._cases.append({"system": key, "params": p, "steps": steps, "seed": rng.randrange(1, 2**31)})
        return list(self._cases)

    def _precompute(self):
        """the histories are independent: run them on several processes (falls back to in-process)"""
        jobs = [c for c in self._cases if common.dumps(c) not in self._done]
        if len(jobs) < 2:
            return
        try:
            import multiprocessing as mp
            from concurrent.futures import ProcessPoolExecutor

            nw = max(1, min(len(jobs), (os.cpu_count() or 2) - 2, 12))
            with ProcessPoolExecutor(max_workers=nw, mp_context=mp.get_context("fork")) as ex:
                for c, r in zip(jobs, ex.map(_pool_job, jobs)):
                    self._done[common.dumps(c)] = r
        except Exception:  # noqa: BLE001
            pass

    def real(self, case):
        k = common.dumps(case)
        if k not in self._done:
            self._precompute()
        obs = self._done.pop(k, None)
        if obs is None:
            obs = ensemble_case(case)
        if "exception" not in obs:
            name, z = worst(obs["runs"][0])
            ENSEMBLE_LOG.append({"system": case["system"], "params": case["params"], "steps": case["steps"],
                                 "seeds": obs["seeds"],
                                 "observables": {k: ({kk: round(vv, 6) for kk, vv in v.items()} if isinstance(v, dict) else v)
                                                 for k, v in obs["runs"][0].items()},
                                 "worst": [name, round(z, 3)], "reruns": len(obs["runs"]) - 1})
        return obs

    def oracle(self, case, obs):
        sysname = case["system"] + ("-composite" if case["params"].get("composite") else "")
        if "exception" in obs:
            return [(f"ensemble-average:{sysname}:exception:{obs['exception']}", obs.get("message", "") + obs.get("trace", "")[-600:])]
        out = []
        runs = obs["runs"]
        first = runs[0]
        # hard per-history facts (not statistical)
        if first.get("_consistency", 0.0) > 1e-9:
            out.append((f"ensemble-average:{sysname}:reference-energy", "last_potential_energy is not the energy of the current configuration"))
        if first.get("_bond_drift", 0.0) > 1e-9:
            out.append((f"ensemble-average:{sysname}:not-rigid", "the bond length of the rigid dipole drifted"))
        if first.get("_bookkeeping", 0.0) != 0.0:
            out.append((f"ensemble-average:{sysname}:particle-count", "number_of_exchange_particles differs from the atoms present"))
        if first.get("_labels_len_mismatch", 0.0) != 0.0:
            out.append((f"ensemble-average:{sysname}:labels", "displacement-move labels out of step with the atoms"))
        if first.get("_scaled_positions_kept", 0.0) > 1e-8:
            out.append((f"ensemble-average:{sysname}:scaled-positions", "isotropic volume moves changed the scaled coordinates"))
        if len(runs) == 3:
            names = [k for k, v in first.items() if isinstance(v, dict)]
            for k in names:
                zs = [r[k]["z"] for r in runs]
                if all(abs(z) > 6.0 for z in zs) and (all(z > 0 for z in zs) or all(z < 0 for z in zs)):
                    out.append((f"ensemble-average:{sysname}",
                                f"{k}: mean {[round(r[k]['mean'], 6) for r in runs]} vs exact {first[k]['expected']:.6g} "
                                f"(z = {[round(z, 1) for z in zs]}) on seeds {obs['seeds']} with {case['params']}"))
        return out

    def classify(self, case, obs):
        if "exception" in obs:
            return None
        return f"{case['system']}:{case['params'].get('op', case['params'].get('n', ''))}:reruns={len(obs['runs']) - 1}"


def suites(tier):
    return [DetailedBalance(), EnsembleRuns()]


def extra_coverage(res):
    return {
        "ensemble_runs": ENSEMBLE_LOG,
        "not_verified": ["irreducibility / aperiodicity of the chains", "convergence of finite runs",
                         "PCG64 quality", "Haar-uniformity of the normalised Gaussian quaternion"],
    }
