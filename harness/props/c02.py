"""C02 — acceptance decisions equal the textbook Metropolis rule (DESIGN §6 C02).

Correspondence (model M-criteria vs the real `criteria.evaluate`) and the property oracle
(`u < min(1, A_textbook)`, recomputed here in log space, independently of the Lean model).

For every case the uniform numbers at which the real criteria is evaluated are placed from the textbook
value `L = log A`:  `A(1 - d)` (must accept) and `A(1 + d)` (must reject) when `A < 1`,  `0.999999` when `A >= 1`,
`1e-3` (must reject) when `A < 1e-300`, with `d = 1e-6` (larger only when the exponent is so ill-conditioned
that double rounding itself exceeds 1e-7, which the case records).  The Lean driver returns the model's decision
at the same numbers; real and model decisions are compared, and the oracle compares the real decisions with the
textbook ones.  Any exception raised by the real `evaluate` is a failure.
"""
from __future__ import annotations

import math

import common

ID = "C02"
LEAN_MODULES = ["QProps.C02"]
THEOREMS = [
    "Crit.accept_iff_min",
    "Crit.favourable_accepted",
    "Crit.evaluate_total",
    "Crit.raw_overflows",
    "Crit.raw_not_total",
    "Crit.fixed_agrees_when_no_overflow",
    "Crit.canonical_textbook",
    "Crit.hamiltonian_textbook",
    "Crit.isobaric_textbook",
    "Crit.isotension_textbook",
    "Crit.isotension_hydrostatic",
    "Crit.unfixed_hydrostatic_differs",
    "Crit.gc_prefactor_closed",
    "Crit.debroglie_def",
    "Crit.gc_general",
    "Crit.gc_insert_textbook",
    "Crit.gc_delete_textbook",
    "Crit.gc_overdelete_rejected",
    "Crit.gc_evaluate_total",
    "Crit.gc_log_form",
    "Crit.gc_no_species_rejected",
    "Crit.gc_product_form_overflows",
    "Crit.gc_raw_overflows",
    "Crit.setter_next_trial_temperature",
    "Crit.setter_next_trial_pressure",
    "Crit.setter_next_trial_external_stress",
    "Crit.setter_next_trial_chemical_potential",
    "Crit.setter_frame",
    "Crit.strainM_eq",
]
RULE = (
    "real CanonicalCriteria/HamiltonianCanonicalCriteria/IsobaricCriteria/IsotensionCriteria/GrandCanonicalCriteria "
    ".evaluate on real Displacement/HamiltonianDisplacement/Deformation/Exchange contexts over real Atoms (cubic, "
    "tetragonal, triclinic, sheared cells; 0..500 atoms / exchange particles (isobaric/isotension also 4e3..1.5e5 atoms); dE log-uniform in +-[1e-9,1e4] eV and 0; "
    "T in [1e-2,1e4] K; pressures, chemical potentials, full stress tensors incl. hydrostatic and shear; delta in "
    "{+1,-1,+2,-2}) with a constant-energy ASE calculator and a scripted generator; half of the cases are steered so "
    "that log A falls in [-40,3]; a case is non-trivial when at least one decision was observed; distinct = distinct inputs; "
    "plus setter forwarding on real Canonical/Isobaric/Isotension/GrandCanonical objects between two evaluations"
)
ASSUMPTIONS = [
    "IEEE rounding of the exponent is not verified: decisions are compared a relative 1e-6 away from the threshold",
    "context.rng.random() returns a number in [0,1) (numpy Generator contract)",
    "the isotension strain is the matrix the code computes, 0.5*((h h0^-1)^T - 1) (property text does not pin the strain measure)",
    "for |delta| = 2 (composite exchange) the property text gives no formula: only 'never raises' and model agreement are demanded",
    "accessible volumes above 1e154 A^3 (float ** int overflow in volume**delta) are outside the generated range",
]

KINDS = ["can", "ham", "npt", "nst", "gc"]
CLASSNAME = {"can": "CanonicalCriteria", "ham": "HamiltonianCanonicalCriteria", "npt": "IsobaricCriteria",
             "nst": "IsotensionCriteria", "gc": "GrandCanonicalCriteria"}
EPS = 2.220446049250313e-16
SPECIES = ["Ar", "He", "Xe", "H2", "CO2", "N2"]


# --------------------------------------------------------------------------- real objects


class Scripted:
    """stands for `context.rng`: `random()` returns the scripted number and counts the draws"""

    def __init__(self, u=0.5):
        self.u = u
        self.draws = 0

    def random(self):
        self.draws += 1
        return self.u

    def __getattr__(self, name):  # any other draw method is a broken correspondence, not silently emulated
        raise AttributeError(f"scripted generator: unexpected method {name}")


_ENV = {}


def env():
    if not _ENV:
        import numpy as np
        import quansino.mc  # noqa: F401  (import order, C08)
        from ase import Atoms
        from ase.build import molecule
        from ase.calculators.calculator import Calculator, all_changes
        from ase.units import _e, _hplanck, _Nav, kB
        from quansino.mc import contexts, criteria

        class ConstantEnergy(Calculator):
            """ASE calculator returning a prescribed energy (so that dE is exact)"""

            implemented_properties = ("energy",)

            def __init__(self, energy=0.0):
                super().__init__()
                self.energy = energy

            def calculate(self, atoms=None, properties=("energy",), system_changes=all_changes):
                super().calculate(atoms, properties, system_changes)
                self.results = {"energy": self.energy}

        def exchange_atoms(sp):
            if sp == "none":
                return Atoms()      # GrandCanonical's default: no exchange species configured
            return Atoms(sp) if sp in ("Ar", "He", "Xe") else molecule(sp)

        _ENV.update(np=np, Atoms=Atoms, Calc=ConstantEnergy, kB=kB, h=_hplanck, Nav=_Nav, e=_e,
                    contexts=contexts, criteria=criteria, exchange_atoms=exchange_atoms,
                    masses={sp: float(exchange_atoms(sp).get_masses().sum()) for sp in [*SPECIES, "none"]})
    return _ENV


def make_atoms(case, cell):
    E = env()
    np = E["np"]
    n = case["natoms"]
    frac = (np.arange(3 * n).reshape(n, 3) * 0.6180339887 + 0.1) % 1.0
    atoms = E["Atoms"](numbers=[18] * n, scaled_positions=frac, cell=np.array(cell).reshape(3, 3), pbc=True)
    return atoms


def build(case):
    """the real criteria object and a real context in the trial state described by the case"""
    E = env()
    np = E["np"]
    kind = case["kind"]
    rng = Scripted()
    atoms = make_atoms(case, case["cell0"])
    atoms.calc = E["Calc"](case["E"])
    C = E["contexts"]
    K = E["criteria"]
    if kind == "can":
        ctx = C.DisplacementContext(atoms, rng)
        crit = K.CanonicalCriteria()
    elif kind == "ham":
        if case.get("p") and case["natoms"]:
            mom = np.zeros((case["natoms"], 3))
            mom[0] = case["p"]
            atoms.set_momenta(mom)
        ctx = C.HamiltonianDisplacementContext(atoms, rng)
        ctx.last_kinetic_energy = case["K0"]
        crit = K.HamiltonianCanonicalCriteria()
    elif kind in ("npt", "nst"):
        ctx = C.DeformationContext(atoms, rng)  # last_cell = the reference cell
        ctx.pressure = case["P"]
        ctx.external_stress = np.array(case["S"]).reshape(3, 3)
        atoms.set_cell(np.array(case["cell"]).reshape(3, 3), scale_atoms=True)  # the trial cell
        crit = K.IsobaricCriteria() if kind == "npt" else K.IsotensionCriteria()
    else:
        ctx = C.ExchangeContext(atoms, rng)
        ctx.chemical_potential = case["mu"]
        ctx.accessible_volume = case["Vacc"]
        ctx.exchange_atoms = E["exchange_atoms"](case["species"])
        ctx.number_of_exchange_particles = case["N"]
        ctx.particle_delta = case["delta"]
        crit = K.GrandCanonicalCriteria()
    ctx.temperature = case["T"]
    ctx.last_potential_energy = case["E0"]
    return crit, ctx, rng


def observe(crit, ctx, rng, us):
    """decisions of the real `evaluate` at the scripted numbers: 'A' accept, 'R' reject, 'X:<exception>'"""
    out = []
    for u in us:
        rng.u = u
        d0 = rng.draws
        try:
            r = crit.evaluate(ctx)
            s = "A" if r else "R"
            if rng.draws != d0 + 1:
                s += f":draws={rng.draws - d0}"
        except Exception as ex:  # noqa: BLE001
            s = "X:" + type(ex).__name__
        out.append(s)
    return out


# --------------------------------------------------------------------------- textbook oracle (log space)


def measured(case):
    """numbers the criteria reads from the real objects (volumes from ASE, masses, kinetic energy)"""
    E = env()
    np = E["np"]
    kind = case["kind"]
    m = {"E": case["E"], "V0": 1.0, "V": 1.0, "mass": 1.0}
    if kind == "ham":
        atoms = make_atoms(case, case["cell0"])
        if case.get("p") and case["natoms"]:
            mom = np.zeros((case["natoms"], 3))
            mom[0] = case["p"]
            atoms.set_momenta(mom)
        m["E"] = float(case["E"] + atoms.get_kinetic_energy())  # atoms.get_total_energy()
    if kind in ("npt", "nst"):
        from ase.cell import Cell

        m["V0"] = float(Cell(np.array(case["cell0"]).reshape(3, 3)).volume)
        m["V"] = float(Cell(np.array(case["cell"]).reshape(3, 3)).volume)
    if kind == "gc":
        m["mass"] = E["masses"][case["species"]]
    return m


def log_wavelength(mass_amu, T):
    """log of the thermal de Broglie wavelength h / sqrt(2 pi m kT) in Angstrom"""
    E = env()
    m = mass_amu * 1e-3 / E["Nav"]
    # term by term: m * kT leaves the double range for T below 1e-260 K
    return (math.log(E["h"]) - 0.5 * (math.log(2 * math.pi) + math.log(m) + math.log(E["kB"]) + math.log(T) + math.log(E["e"]))
            + 10 * math.log(10.0))


def textbook(case, over=None):
    """(L, scale): L = log A of the textbook acceptance ratio, scale = sum of |terms| (conditioning of L)"""
    E = env()
    np = E["np"]
    c = dict(case)
    if over:
        c.update(over)
    kind = c["kind"]
    m = measured(c)
    kT = E["kB"] * c["T"]
    if kind == "can":
        dE = m["E"] - c["E0"]
        return -dE / kT, (abs(m["E"]) + abs(c["E0"])) / kT
    if kind == "ham":
        dE = m["E"] - c["E0"] - c["K0"]
        return -dE / kT, (abs(m["E"]) + abs(c["E0"]) + abs(c["K0"])) / kT
    if kind in ("npt", "nst"):
        dE = m["E"] - c["E0"]
        V0, V = m["V0"], m["V"]
        L = -(dE + c["P"] * (V - V0)) / kT + (c["natoms"] + 1) * math.log(V / V0)
        scale = (abs(m["E"]) + abs(c["E0"]) + abs(c["P"]) * (V + V0)) / kT + (c["natoms"] + 1) * (abs(math.log(V / V0)) + 1)
        if kind == "nst":
            h0 = np.array(c["cell0"]).reshape(3, 3)
            h = np.array(c["cell"]).reshape(3, 3)
            S = np.array(c["S"]).reshape(3, 3)
            # the strain matrix of the code (DESIGN §7 2b): 0.5*((h h0^-1)^T - 1)
            strain = 0.5 * ((h @ np.linalg.inv(h0)).T - np.eye(3))
            dev = S - c["P"] * np.eye(3)
            W = V0 * float(np.trace(dev @ strain))
            L -= W / kT
            scale += V0 * float(np.abs(dev).sum()) * (float(np.abs(strain).max()) + 1) * float(np.linalg.cond(h0)) / kT
        return L, scale
    # grand canonical
    dE = m["E"] - c["E0"]
    N, d = c["N"], c["delta"]
    if N + d < 0:
        return -math.inf, 0.0
    if m["mass"] <= 0:
        # no exchange species configured (the driver's default): there is no thermal wavelength, hence no ratio to accept with
        return -math.inf, 0.0
    lw = log_wavelength(m["mass"], c["T"])
    lv = math.log(c["Vacc"])
    if d == 1:
        L = lv - 3 * lw - math.log(N + 1) + (c["mu"] - dE) / kT
    elif d == -1:
        if N == 0:
            return -math.inf, 0.0
        L = 3 * lw + math.log(N) - lv + (-c["mu"] - dE) / kT
    else:  # composite exchange: V^d N!/(N+d)! Lambda^(-3d) exp((d mu - dE)/kT)
        # log(N!/(N+d)!) term by term (a difference of two lgamma values loses every digit at large N)
        lf = -sum(math.log(N + i) for i in range(1, d + 1)) if d > 0 else sum(math.log(N - i) for i in range(-d))
        L = d * lv + lf - 3 * d * lw + (d * c["mu"] - dE) / kT
    scale = (abs(d * c["mu"]) + abs(m["E"]) + abs(c["E0"])) / kT + abs(d) * (abs(lv) + 3 * abs(lw)) + 20
    return L, scale


def plan(L, scale):
    """[(u, expected decision)] and the branch key"""
    tol = max(1e-7, 64 * EPS * scale)
    if L == -math.inf:
        return [(0.0, False), (0.5, False)], "A=0"
    if tol > 1e-3:  # rounding of a 1e10-sized exponent: only decisions far from the threshold are meaningful
        if L > 1 + 10 * tol:
            return [(0.999999, True)], "huge-exponent-accept"
        if L < -800 - 10 * tol:
            return [(1e-3, False)], "huge-exponent-reject"
        return [], "ill-conditioned"
    if L >= 0:
        u = 0.999999 if L >= 10 * tol else 1 - max(1e-6, 10 * tol)
        return [(u, True), (0.0, True)], ("overflow-accept" if L > 709.782712893384 else "A>=1")
    if L <= -690:
        return [(1e-3, False)], "A<1e-300"
    A = math.exp(L)
    d = max(1e-6, 10 * tol)
    out = [(A * (1 - d), True)]
    if A * (1 + d) < 1:
        out.append((A * (1 + d), False))
    out.append((0.0, True))
    return out, "window"


# --------------------------------------------------------------------------- protocol


def model_line(case, us, setter="-", raw=False):
    E = env()
    m = measured(case)
    fl = common.fl
    consts = fl([E["kB"], E["h"], E["Nav"], E["e"]])
    scal = fl([case["T"], case["E0"], case.get("K0", 0.0), case.get("P", 0.0), m["V0"], case.get("mu", 0.0),
               case.get("Vacc", 1.0), m["mass"]])
    eye = [1.0, 0.0, 0.0, 0.0, 1.0, 0.0, 0.0, 0.0, 1.0]
    return " ".join([
        "crit-raw" if raw else "crit", case["kind"], consts, scal, fl(case.get("S", eye)), fl(case["cell0"]),
        str(case.get("N", 0)), str(case.get("delta", 0)), fl([m["E"], m["V"]]), str(case["natoms"]),
        fl(case.get("cell", case["cell0"])), setter, fl(us),
    ])


def parse_answer(out):
    w = out.split()
    if not w or w[0] != "ok":
        return None
    return {"exponent": common.bitsf(w[1]), "prefactor": common.bitsf(w[2]), "logA": common.bitsf(w[3]),
            "decisions": [] if w[4] == "-" else ["A" if ch == "1" else "R" for ch in w[4]]}


# --------------------------------------------------------------------------- generators


def logu(rng, lo, hi):
    return 10 ** rng.uniform(lo, hi)


def gen_cell(rng):
    a = rng.uniform(3, 30)
    t = rng.choice(["cubic", "tetragonal", "triclinic", "sheared"])
    if t == "cubic":
        c = [a, 0, 0, 0, a, 0, 0, 0, a]
    elif t == "tetragonal":
        c = [a, 0, 0, 0, a, 0, 0, 0, a * rng.uniform(0.5, 2)]
    elif t == "triclinic":
        b, cc = a * rng.uniform(0.6, 1.5), a * rng.uniform(0.6, 1.5)
        c = [a, 0, 0, rng.uniform(-0.4, 0.4) * a, b, 0, rng.uniform(-0.4, 0.4) * a, rng.uniform(-0.4, 0.4) * b, cc]
    else:
        s = [rng.uniform(-0.3, 0.3) for _ in range(6)]
        c = [a, s[0] * a, s[1] * a, s[2] * a, a, s[3] * a, s[4] * a, s[5] * a, a]
    return t, [float(x) for x in c]


def gen_deformation(rng):
    t = rng.choice(["isotropic", "anisotropic", "shear", "general"])
    x = rng.choice([1e-4, 0.02, 0.3])
    if t == "isotropic":
        s = math.exp(rng.uniform(-x, x) * (3 if rng.random() < 0.1 else 1))
        D = [s, 0, 0, 0, s, 0, 0, 0, s]
    elif t == "anisotropic":
        D = [1 + rng.uniform(-x, x), 0, 0, 0, 1 + rng.uniform(-x, x), 0, 0, 0, 1 + rng.uniform(-x, x)]
    elif t == "shear":
        D = [1, rng.uniform(-x, x), rng.uniform(-x, x), rng.uniform(-x, x), 1, rng.uniform(-x, x),
             rng.uniform(-x, x), rng.uniform(-x, x), 1]
    else:
        D = [(1 if i in (0, 4, 8) else 0) + rng.uniform(-x, x) for i in range(9)]
    return t, D


def matmul3(a, b):
    return [float(sum(a[3 * i + k] * b[3 * k + j] for k in range(3))) for i in range(3) for j in range(3)]


def gen_stress(rng, P):
    t = rng.choice(["hydrostatic=P", "hydrostatic=P", "zero", "hydrostatic", "diagonal", "symmetric", "general"])
    s = logu(rng, -8, 0)
    if t == "hydrostatic=P":
        S = [P, 0, 0, 0, P, 0, 0, 0, P]
    elif t == "zero":
        S = [0.0] * 9
    elif t == "hydrostatic":
        v = s * rng.choice([1, -1])
        S = [v, 0, 0, 0, v, 0, 0, 0, v]
    elif t == "diagonal":
        S = [s * rng.uniform(-1, 1), 0, 0, 0, s * rng.uniform(-1, 1), 0, 0, 0, s * rng.uniform(-1, 1)]
    elif t == "symmetric":
        v = [s * rng.uniform(-1, 1) for _ in range(6)]
        S = [v[0], v[3], v[4], v[3], v[1], v[5], v[4], v[5], v[2]]
    else:
        S = [s * rng.uniform(-1, 1) for _ in range(9)]
    return t, [float(x) for x in S]


def gen_energy(rng):
    r = rng.random()
    if r < 0.06:
        return 0.0
    return rng.choice([1, -1]) * logu(rng, -9, 4)


def gen_case(rng, kind):
    c = {"kind": kind}
    c["T"] = float(logu(rng, -2, 4))
    c["natoms"] = rng.choice([0, 1, 2, 3, 4, 8, 20, 100, 500]) if rng.random() < 0.7 else rng.randint(0, 500)
    if kind in ("npt", "nst") and rng.random() < 0.06:
        # very large systems: (N+1)·log(V'/V) far beyond 709 while the energy term pulls log A back into range
        c["natoms"] = rng.choice([4000, 20000, 80000, 150000])
    ct, c["cell0"] = gen_cell(rng)
    c["celltype"] = ct
    c["E0"] = 0.0 if rng.random() < 0.5 else float(-rng.uniform(0, 5) * max(c["natoms"], 1))
    dE = gen_energy(rng)
    c["E"] = float(c["E0"] + dE)
    if kind == "ham":
        c["K0"] = float(rng.choice([0.0, rng.uniform(0, 2), logu(rng, -6, 2)]))
        c["p"] = [rng.uniform(-5, 5) for _ in range(3)] if rng.random() < 0.6 else None
    if kind in ("npt", "nst"):
        c["P"] = 0.0 if rng.random() < 0.15 else float(logu(rng, -8, 0) * (1 if rng.random() < 0.85 else -1))
        dt, D = gen_deformation(rng)
        c["deformation"] = dt
        c["cell"] = matmul3(c["cell0"], D)
        c["S"] = [c["P"], 0, 0, 0, c["P"], 0, 0, 0, c["P"]]
        if kind == "nst":
            st, c["S"] = gen_stress(rng, c["P"])
            c["stresstype"] = st
    if kind == "gc":
        c["N"] = rng.choice([0, 1, 2, 3, 5, 10, 50, 100, 500]) if rng.random() < 0.7 else rng.randint(0, 500)
        if rng.random() < 0.1:
            # the reservoir counter is a free integer: N!/(N+delta)! is a ratio of a few factors however large N is
            c["N"] = rng.choice([10**6, 10**9, 10**12, 10**15, 2**53 + 5, 10**18])
        c["delta"] = rng.choice([1, 1, 1, -1, -1, -1, 2, -2])
        c["species"] = rng.choice(SPECIES) if rng.random() < 0.95 else "none"
        c["mu"] = 0.0 if rng.random() < 0.1 else float(rng.choice([1, -1]) * logu(rng, -3, 1.3))
        c["Vacc"] = float(logu(rng, 0, 6))
    if rng.random() < (0.12 if kind == "gc" else 0.04):
        # the far ends of "every positive temperature" / "all positive volumes": nothing may raise there, and decisions
        # far from the threshold stay the textbook ones (Lambda^3 and V^delta leave the double range long before log A does)
        c["extreme"] = True
        if kind != "gc" or rng.random() < 0.75:
            c["T"] = float(10.0 ** rng.uniform(-290, 290))
        if kind == "gc" and rng.random() < 0.5:
            c["Vacc"] = float(10.0 ** rng.uniform(-150, 200))
    return c


def steer(rng, c):
    """move the energy so that log A lands in [-40, 3] (threshold tests need A inside the double range)"""
    target = rng.uniform(-40, 3) if rng.random() < 0.8 else rng.uniform(-1e-3, 1e-3)
    L, _ = textbook(c)
    if not math.isfinite(L):
        return c
    kT = env()["kB"] * c["T"]
    # L is affine in E with slope -1/kT
    c = dict(c)
    c["E"] = float(c["E"] + (L - target) * kT)
    c["steered"] = True
    return c


class Decisions(common.Suite):
    """one criteria class per suite instance"""

    def __init__(self, kind):
        self.kind = kind
        self.name = "criteria-" + kind

    def cases(self, rng, tier):
        n = {"quick": 1500, "thorough": 32000}[tier]
        if self.kind in ("nst", "gc"):
            n = int(n * 1.5)
        for _ in range(n):
            c = gen_case(rng, self.kind)
            if rng.random() < 0.5:
                c = steer(rng, c)
            yield c

    _memo = (None, None)

    def us(self, case):
        if self._memo[0] is case:
            return self._memo[1]
        L, scale = textbook(case)
        pl, key = plan(L, scale)
        self._memo = (case, (L, scale, pl, key))
        return L, scale, pl, key

    def real(self, case):
        L, scale, pl, key = self.us(case)
        crit, ctx, rng = build(case)
        us = [u for u, _ in pl]
        obs = {"us": us, "decisions": observe(crit, ctx, rng, us), "branch": key, "L": L}
        if case["kind"] == "nst" and case.get("stresstype") == "hydrostatic=P":
            K = env()["criteria"]
            obs["isobaric"] = observe(K.IsobaricCriteria(), ctx, rng, us)
        return obs

    def model_lines(self, case):
        L, scale, pl, key = self.us(case)
        return [model_line(case, [u for u, _ in pl])]

    def model_obs(self, case, outs):
        a = parse_answer(outs[0])
        if a is None:
            return {"decisions": "bad-op"}
        L, scale, pl, key = self.us(case)
        return {"decisions": a["decisions"], "logA": a["logA"], "L": L, "tol": max(1e-7, 64 * EPS * scale)}

    def compare(self, case, real_obs, model_obs):
        diffs = []
        if real_obs.get("decisions") != model_obs["decisions"]:
            diffs.append(f"decisions: real={real_obs.get('decisions')} model={model_obs['decisions']} at u={real_obs.get('us')}")
        # the model's exponent against the independent textbook value (guards the model and the protocol)
        L, la = model_obs["L"], model_obs.get("logA")
        if la is not None and abs(case.get("delta", 1)) == 1:
            if math.isfinite(L) and not abs(la - L) <= 10 * model_obs["tol"] + 1e-9 * abs(L):
                diffs.append(f"model logA={la!r} textbook={L!r}")
            if L == -math.inf and la not in (-math.inf,) and not math.isnan(la):
                diffs.append(f"model logA={la!r} textbook=-inf")
        return diffs

    def oracle(self, case, obs):
        kind = case["kind"]
        if "exception" in obs:
            return [(f"criteria:harness-exception:{kind}:{obs['exception']}", obs["message"])]
        L, scale, pl, key = self.us(case)
        out = []
        multi = kind == "gc" and abs(case["delta"]) != 1
        for (u, want), got in zip(pl, obs["decisions"]):
            if got.startswith("X:"):
                exc = got[2:]
                sig = (f"criteria:overflow:{CLASSNAME[kind]}" if exc == "OverflowError"
                       else f"criteria:exception:{CLASSNAME[kind]}:{exc}")
                out.append((sig, f"evaluate raised {exc} at log A = {L:.6g} (u = {u!r}); textbook decision: "
                                 f"{'accept' if want else 'reject'}"))
                continue
            if ":draws=" in got:
                out.append((f"criteria:draws:{CLASSNAME[kind]}", f"evaluate consumed {got.split('=')[1]} uniform numbers"))
            if multi:
                continue
            if (got[0] == "A") != want:
                if kind == "nst":
                    sig = "isotension:hydrostatic" if case.get("stresstype") == "hydrostatic=P" else "isotension:stress-work"
                else:
                    sig = f"criteria:decision:{CLASSNAME[kind]}"
                out.append((sig, f"u = {u!r}, textbook log A = {L!r} (A = {math.exp(min(L, 700)):.6g}): expected "
                                 f"{'accept' if want else 'reject'}, evaluate returned {got}"))
        if "isobaric" in obs and obs["isobaric"] != obs["decisions"] and not any(
                d.startswith("X:") for d in obs["isobaric"] + obs["decisions"]):
            out.append(("isotension:hydrostatic",
                        f"S = P*1 (P = {case['P']!r}, {case['celltype']} cell, {case['deformation']} deformation): isotension "
                        f"decisions {obs['decisions']} differ from isobaric decisions {obs['isobaric']} at u = {obs['us']}"))
        # one signature once per case
        seen, uniq = set(), []
        for s, m in out:
            if s not in seen:
                seen.add(s)
                uniq.append((s, m))
        return uniq

    def classify(self, case, obs):
        if not obs.get("decisions"):
            return None
        key = obs.get("branch", "exception")
        extra = ""
        if case["kind"] == "nst":
            extra = "," + case["stresstype"] + "," + ("shear" if case["deformation"] in ("shear", "general") else "noshear")
        if case["kind"] == "gc":
            extra = f",delta={case['delta']}" + (",N=0" if case["N"] == 0 else "")
        if case["E"] == case["E0"]:
            extra += ",dE=0"
        if case.get("extreme"):
            extra += ",extreme"
        return key + extra


# --------------------------------------------------------------------------- setter forwarding


SETTERS = {
    "can": [("temperature", "T")],
    "npt": [("temperature", "T"), ("pressure", "P")],
    "nst": [("temperature", "T"), ("pressure", "P"), ("external_stress", "S")],
    "gc": [("temperature", "T"), ("chemical_potential", "mu"), ("accessible_volume", "Vacc"),
           ("number_of_exchange_particles", "N")],
}


class Setters(common.Suite):
    """`mc.<parameter> = value` between two evaluations: the next evaluate reads the new value"""

    name = "setter-forwarding"

    def cases(self, rng, tier):
        n = {"quick": 240, "thorough": 2400}[tier]
        for _ in range(n):
            kind = rng.choice(["can", "npt", "nst", "gc"])
            c = gen_case(rng, kind)
            c["natoms"] = max(1, min(c["natoms"], 20))
            if kind == "gc":
                c["delta"] = rng.choice([1, -1])
            if kind == "nst" and rng.random() < 0.35:
                # the external stress is NOT given to the constructor (zero stress), after another simulation of the process
                # had its stress changed IN PLACE through the public property: defaults are not shared between objects
                c["S"] = [0.0] * 9
                c["stresstype"] = "default"
                c["S_default"] = True
            c = steer(rng, c)
            attr, field = rng.choice(SETTERS[kind])
            c2 = gen_case(rng, kind)
            new = c2[field]
            if field == "T":  # a moderate change so that both thresholds are inside the double range
                new = float(c["T"] * rng.uniform(0.5, 2.0))
            c["set"] = [attr, field, new]
            yield c

    @staticmethod
    def after(case):
        c = dict(case)
        c[case["set"][1]] = case["set"][2]
        return c

    _memo = (None, None)

    def plans(self, case):
        if self._memo[0] is case:
            return self._memo[1]
        L1, s1 = textbook(case)
        L2, s2 = textbook(self.after(case))
        r = plan(L1, s1), plan(L2, s2)
        self._memo = (case, r)
        return r

    def real(self, case):
        E = env()
        np = E["np"]
        from quansino.mc.canonical import Canonical
        from quansino.mc.gcmc import GrandCanonical
        from quansino.mc.isobaric import Isobaric
        from quansino.mc.isotension import Isotension
        from quansino.moves.cell import CellMove
        from quansino.moves.displacement import DisplacementMove
        from quansino.moves.exchange import ExchangeMove
        from quansino.operations.cell import IsotropicDeformation

        kind = case["kind"]
        pre_edit = kind in ("npt", "nst") and int(round(abs(case["E0"]) * 1e6)) % 5 < 2
        # pre_edit: the simulation is BUILT on another cell; the user rescales it to cell0 afterwards and the run starts
        # (validate_simulation): the reference cell — and every quantity derived from it — is the one the run starts from
        atoms = make_atoms(case, [x * 1.07 for x in case["cell0"]] if pre_edit else case["cell0"])
        atoms.calc = E["Calc"](case["E"])
        dm = DisplacementMove(np.arange(len(atoms)))
        if kind == "can":
            mc = Canonical(atoms, temperature=case["T"], default_displacement_move=dm)
            crit = mc.moves["default_displacement_move"].criteria
        elif kind == "npt":
            mc = Isobaric(atoms, temperature=case["T"], pressure=case["P"], default_cell_move=CellMove(IsotropicDeformation(0.05)))
            crit = mc.moves["default_cell_move"].criteria
        elif kind == "nst" and case.get("S_default"):
            decoy = Isotension(make_atoms(case, case["cell0"]), temperature=case["T"], pressure=case["P"],
                               default_cell_move=CellMove(IsotropicDeformation(0.05)))
            decoy.external_stress += 0.05
            mc = Isotension(atoms, temperature=case["T"], pressure=case["P"], default_cell_move=CellMove(IsotropicDeformation(0.05)))
            crit = mc.moves["default_cell_move"].criteria
        elif kind == "nst":
            S = np.array(case["S"]).reshape(3, 3)
            if np.array_equal(S, S.T) and int(round(abs(case["E"]) * 1e6)) % 3 == 0:
                # a symmetric stress given in Voigt order (xx, yy, zz, yz, xz, xy), the documented (6,) shape — what
                # `atoms.get_stress()` returns
                S = np.array([S[0, 0], S[1, 1], S[2, 2], S[1, 2], S[0, 2], S[0, 1]])
            mc = Isotension(atoms, temperature=case["T"], pressure=case["P"], external_stress=S,
                            default_cell_move=CellMove(IsotropicDeformation(0.05)))
            crit = mc.moves["default_cell_move"].criteria
        else:
            mc = GrandCanonical(atoms, exchange_atoms=E["exchange_atoms"](case["species"]), temperature=case["T"],
                                chemical_potential=case["mu"], number_of_exchange_particles=case["N"],
                                default_exchange_move=ExchangeMove(np.arange(len(atoms))))
            mc.accessible_volume = case["Vacc"]
            crit = mc.moves["default_exchange_move"].criteria
            mc.context.particle_delta = case["delta"]
        if pre_edit:
            atoms.set_cell(np.array(case["cell0"]).reshape(3, 3), scale_atoms=True)
            mc.validate_simulation()
        rng = Scripted()
        mc.context.rng = rng
        mc.context.last_potential_energy = case["E0"]
        if kind in ("npt", "nst"):
            atoms.set_cell(np.array(case["cell"]).reshape(3, 3), scale_atoms=True)
        (p1, k1), (p2, k2) = self.plans(case)
        obs = {"class": type(crit).__name__, "before": observe(crit, mc.context, rng, [u for u, _ in p1])}
        attr, field, new = case["set"]
        newv = np.array(new).reshape(3, 3) if field == "S" else new
        if field == "S" and np.array_equal(newv, newv.T) and int(round(abs(case["E"]) * 1e6)) % 2 == 0:
            setattr(mc, attr, np.array([newv[0, 0], newv[1, 1], newv[2, 2], newv[1, 2], newv[0, 2], newv[0, 1]]))
        else:
            setattr(mc, attr, newv)
        got = getattr(mc, attr)
        same = lambda x: bool(np.shape(x) == np.shape(newv) and np.all(np.asarray(x) == np.asarray(newv)))  # noqa: E731
        obs["readback"] = same(got)
        held = getattr(mc.context, attr)
        obs["forwarded"] = same(held)
        obs["after"] = observe(crit, mc.context, rng, [u for u, _ in p2])
        obs["branch"] = f"{kind}.{attr}:{k1}->{k2}"
        # ... and keeps applying: a few real trials later (accepted and rejected ones: save_state / revert_state / reset have
        # run) every control parameter still holds what the user assigned; only the particle count follows the exchanges
        settings = {"can": ["temperature"], "npt": ["temperature", "pressure"],
                    "nst": ["temperature", "pressure", "external_stress"],
                    "gc": ["temperature", "chemical_potential", "accessible_volume"]}[kind]
        want = {a: np.array(getattr(mc, a), dtype=float).copy() for a in settings}
        mc.context.rng = common.get_rng(mc)
        if kind in ("npt", "nst"):
            atoms.set_cell(np.array(case["cell0"]).reshape(3, 3), scale_atoms=True)
        try:
            import warnings
            with warnings.catch_warnings():
                warnings.simplefilter("ignore")
                mc.run(3)
            obs["survives"] = {a: bool(np.array_equal(np.array(getattr(mc, a), dtype=float), want[a])
                                       and np.array_equal(np.array(getattr(mc.context, a), dtype=float), want[a]))
                               for a in settings}
            obs["outcomes"] = len(getattr(mc, "move_history", []))
        except Exception as e:  # noqa: BLE001
            obs["survives_error"] = f"{type(e).__name__}: {e}"[:200]
        return obs

    def model_lines(self, case):
        (p1, _), (p2, _) = self.plans(case)
        attr, field, new = case["set"]
        token = {"T": "T", "P": "P", "mu": "mu", "Vacc": "V", "N": "N", "S": "S"}[field]
        val = str(new) if field == "N" else common.fl(new if field == "S" else [new])
        return [model_line(case, [u for u, _ in p1]), model_line(case, [u for u, _ in p2], setter=f"{token}:{val}")]

    def model_obs(self, case, outs):
        a, b = parse_answer(outs[0]), parse_answer(outs[1])
        if a is None or b is None:
            return {"before": "bad-op", "after": "bad-op"}
        return {"before": a["decisions"], "after": b["decisions"]}

    def oracle(self, case, obs):
        if "exception" in obs:
            return [(f"setter:harness-exception:{case['kind']}:{obs['exception']}", obs["message"])]
        (p1, _), (p2, _) = self.plans(case)
        out = []
        attr = case["set"][0]
        if obs["class"] != CLASSNAME[case["kind"]]:
            out.append((f"setter:default-criteria:{case['kind']}", f"default criteria is {obs['class']}"))
        if not obs["readback"]:
            out.append((f"setter:readback:{attr}", "the property does not return the value just set"))
        if not obs["forwarded"]:
            out.append((f"setter:not-applied:{attr}", f"context.{attr} does not hold the value assigned to mc.{attr}"))
        for a, ok in obs.get("survives", {}).items():
            if not ok:
                out.append((f"setter:lost-after-trials:{a}", f"mc.{a} no longer holds the assigned value after three steps"))
        if "survives_error" in obs:
            out.append((f"setter:run-after-setting-raised:{case['kind']}", obs["survives_error"]))
        for label, pl in (("before", p1), ("after", p2)):
            for (u, want), got in zip(pl, obs[label]):
                if got.startswith("X:"):
                    exc = got[2:]
                    out.append(((f"criteria:overflow:{CLASSNAME[case['kind']]}" if exc == "OverflowError"
                                 else f"criteria:exception:{CLASSNAME[case['kind']]}:{exc}"), f"{label} {attr}: raised {exc}"))
                elif (got[0] == "A") != want:
                    if label == "after" and not obs["forwarded"]:
                        continue  # already reported as setter:not-applied
                    if case["kind"] == "nst":
                        sig = "isotension:stress-work"
                    else:
                        sig = f"criteria:decision:{CLASSNAME[case['kind']]}"
                    out.append((sig, f"{label} `mc.{attr} = {case['set'][2]!r}`: u = {u!r} expected "
                                     f"{'accept' if want else 'reject'}, got {got}"))
        seen, uniq = set(), []
        for s, m in out:
            if s not in seen:
                seen.add(s)
                uniq.append((s, m))
        return uniq

    def classify(self, case, obs):
        return obs.get("branch", "exception")


def suites(tier):
    return [Decisions(k) for k in KINDS] + [Setters()]
