"""Force-bias driver machine (C07f / C15f): random histories on the real `ForceBias` / `AdaptiveForceBias` objects.

Not a registered property of its own: `props/c07.py` and `props/c15.py` take `suites`, `THEOREMS_C07/_C15` and
`LEAN_MODULES_C07/_C15` from here (the module also carries `ID`, `THEOREMS`, `LEAN_MODULES`, `RULE`, `ASSUMPTIONS` so that
`qcheck.py FBD` can drive it alone as a pseudo-property).

Suite `FBDriverHistories`. One case = one simulation object (2-6 atoms, different masses, `shaped_masses` optionally set
through `update_masses` to something else than the atoms' masses, scalar/array/dict `masses_scaling_power`; `ForceBias`
with scalar or per-coordinate delta, `AdaptiveForceBias` with scheme "forces" and the tanh/exp update) on a pure-numpy
harmonic calculator that puts a configuration-dependent committee (`forces_comm`) into its results, and a history of events

    run(n), n >= 0 | user edit of positions and momenta | restart | attach a calculator (new, or one that still holds the
                                                                     results of another configuration)

executed on the REAL object with its generator wrapped by a recorder (every number it returns is logged, and compared with
an independent PCG64 of the same seed: after a restart the stream must be the continuation). After every step and after
every event the state (positions, momenta, delta, numbers drawn so far, step_count, configuration the calculator results
belong to) is recorded.

* tie: the Lean machine (`fbd …`, QModel/FBDriverIO.lean = QModel/FBDriver.lean at `Float`) replays the same history from
  the same initial state on the recorded stream; every record is compared (1e-12 relative as in c13.py; integers and the
  calculator cache exactly). A step with an acceptance decision within rounding noise of its threshold (reported by the
  model driver) ends the comparison of that case there — `STATS["cases_cut_at_fragile_decision"]`.
* oracle, on the real object alone: (a) the history with consecutive run() calls merged gives bitwise the same records at
  the same step counts (split = unsplit); (b) the history without its restarts and calculator attachments, started on a
  fresh calculator, gives bitwise the same steps (restart = straight; a used calculator is invisible); (c) the delta every
  `AdaptiveForceBias` step used equals `min + (max-min)·update(std/mean|.|)` of the committee of the positions that step
  STARTED from, recomputed here with numpy from those positions; (d) the generator stream is the reference stream and its
  final state the reference state.
"""
from __future__ import annotations

import math

import common

ID = "FBD"
LEAN_MODULES_C07 = ["QProps.C07f"]
LEAN_MODULES_C15 = ["QProps.C15f"]
LEAN_MODULES = [*LEAN_MODULES_C15, *LEAN_MODULES_C07]
THEOREMS_C15 = [
    "FBD.fbd_cache_fresh",
    "FBD.fbd_stable",
    "FBD.fbd_split_run",
    "FBD.fbd_split_many",
    "FBD.fbd_split_irun",
    "FBD.fbd_split_run_coded_partial",
    "FBD.fbd_split_run_after_edit",
    "FBD.fbd_split_run_noValidate",
    "FBD.fbd_run_prefix",
    "FBD.afb_delta_current",
    "FBD.afb_delta_first_step",
    "FBD.afb_delta_current_after_edit",
    "FBD.afb_delta_current_after_restart",
    "FBD.afb_delta_current_after_attach",
    "FBD.fb_delta_constant",
    "FBD.afb_delta_stale_without_validate",
    "FBD.afb_delta_fallback_without_validate",
    "FBD.Toy.afb_delta_stale_witness",
    "FBD.Toy.afb_delta_fallback_witness",
]
THEOREMS_C07 = [
    "FBD.fbd_factors",
    "FBD.fb_step_factors",
    "FBD.restart_continues_fb",
    "FBD.restart_continues_fb_fields",
    "FBD.restart_twice_fb",
    "FBD.Toy.afb_step_does_not_factor",
    "FBD.Toy.afb_restart_breaks_without_validate",
]
THEOREMS = [*THEOREMS_C15, *THEOREMS_C07]
RULE = (
    "ForceBias / AdaptiveForceBias (scheme forces, tanh/exp) on 2-6 atoms of elements H..U, masses from the elements or "
    "set by hand, shaped_masses optionally replaced through update_masses, masses_scaling_power default/float/np.float64/"
    "array/dict, delta scalar or per coordinate (ForceBias), T in [30, 3000] K, harmonic calculator with per-coordinate "
    "spring constants and a 3-5 member committee whose spread depends on the configuration, initial calculator new or used "
    "on another configuration; history of 3-9 events from run(0..4) / edit of positions and momenta / restart through "
    "to_dict-encode-decode-from_dict with a fresh calculator / attaching a new or a used calculator; non-trivial = at "
    "least one executed step; distinct = distinct case dictionaries"
)
ASSUMPTIONS = [
    "the calculator is a deterministic function of the positions (true of the harness calculator); ASE's check_state "
    "tolerance (positions within 1e-15*(1+|x|) of the cached ones count as unchanged) is not modelled: edits and "
    "displacements of the generated histories are far above it",
    "Float model uses libm exp/tanh/pow, numpy its SIMD kernels (<= 1 ulp apart): records are compared at 1e-12 "
    "relative; a case is compared only up to the first step with an acceptance decision within "
    "1e-10*(2+coth|gamma|)*(1+|gamma|) of its threshold (counted in fbd_tie.cases_cut_at_fragile_decision)",
    "no constraint attached, scheme 'energy' of AdaptiveForceBias not modelled, atoms.calc is never None",
]

THR = 1e-10
ROUND_BUDGET = 400
STATS = {"cases_tied": 0, "steps_tied": 0, "records_tied": 0, "cases_cut_at_fragile_decision": 0,
         "steps_not_compared_after_fragile": 0, "draws_replayed": 0, "max_rel_dev_pos_mom_delta": 0.0,
         "records_bitwise_equal": 0}


def extra_coverage(res):
    return {"fbd_tie": dict(STATS)}


class RoundBudget(Exception):
    pass


# --------------------------------------------------------------------------- the calculator (pure numpy)


def committee(pos, k, c, es):
    """`results["forces"]`, `results["forces_comm"]` of the harness calculator; IEEE + - * / only, one ufunc per operation,
    the same order as `FBD.IO.harmMember` (lean/QModel/FBDriverIO.lean)"""
    import numpy as np

    d = pos - c
    f = (-k) * d
    s = (d * d) / (1.0 + d * d)
    return f, np.stack([f * (1.0 + e * s) for e in es])


def make_calc(case):
    import numpy as np
    from ase.calculators.calculator import Calculator, all_changes

    n = len(case["symbols"])
    k = np.array(case["k"], dtype=float).reshape(n, 3)
    c = np.array(case["c"], dtype=float).reshape(n, 3)
    es = [float(e) for e in case["es"]]

    class HarmCommittee(Calculator):
        implemented_properties = ["energy", "forces"]  # noqa: RUF012

        def calculate(self, atoms=None, properties=("energy",), system_changes=all_changes):
            super().calculate(atoms, properties, system_changes)
            x = self.atoms.get_positions()
            f, fc = committee(x, k, c, es)
            self.results = {"energy": float(0.5 * np.sum(k * (x - c) ** 2)), "forces": f, "forces_comm": fc}

    return HarmCommittee()


def used_calc(case, atoms, other_positions):
    """a calculator that has been used on the same atoms at `other_positions` and still holds those results"""
    import numpy as np

    calc = make_calc(case)
    other = atoms.copy()
    other.set_positions(np.array(other_positions, dtype=float).reshape(-1, 3))
    other.calc = calc
    other.get_forces()
    return calc


# --------------------------------------------------------------------------- recorder of the generator


class Recorder:
    """stands in for `sim._rng`: the real Generator, every returned number logged and compared with the reference"""

    def __init__(self, gen, ctx):
        self._gen = gen
        self._ctx = ctx

    def _log(self, method, arr, ref):
        import numpy as np

        if not np.array_equal(arr, ref):
            self._ctx["stream_mismatch"].append(len(self._ctx["log"]))
        self._ctx["log"].extend(float(x) for x in arr.reshape(-1))
        self._ctx["calls"].append(method)

    def uniform(self, low=0.0, high=1.0, size=None):
        import numpy as np

        if (low, high) != (-1, 1) or size is None:
            self._ctx["unknown"].append(f"uniform({low},{high},{size})")
        self._ctx["rounds"] += 1
        if self._ctx["rounds"] > ROUND_BUDGET:
            raise RoundBudget()
        arr = np.array(self._gen.uniform(low, high, size), dtype=float, ndmin=1)
        ref = np.array(self._ctx["ref"].uniform(low, high, size), dtype=float, ndmin=1)
        self._log("uniform", arr, ref)
        return arr

    def random(self, size=None):
        import numpy as np

        if size is None:
            self._ctx["unknown"].append("random(None)")
        arr = np.array(self._gen.random(size), dtype=float, ndmin=1)
        ref = np.array(self._ctx["ref"].random(size), dtype=float, ndmin=1)
        self._log("random", arr, ref)
        return arr

    @property
    def bit_generator(self):
        return self._gen.bit_generator

    def __getattr__(self, name):
        if name.startswith("__"):
            raise AttributeError(name)
        self._ctx["unknown"].append(name)
        return getattr(self._gen, name)


# --------------------------------------------------------------------------- the real object


def flat(a, n):
    import numpy as np

    return [float(x) for x in np.broadcast_to(np.asarray(a, dtype=float), (n, 3)).reshape(-1)]


def build(case, stale_initial):
    """a fresh simulation object of the case; returns (sim, atoms)"""
    import warnings

    import numpy as np
    import quansino.mc  # noqa: F401  (import order: see C08)
    from ase import Atoms
    from quansino.mc.fbmc import AdaptiveForceBias, ForceBias

    n = len(case["symbols"])
    atoms = Atoms(case["symbols"], positions=np.array(case["positions"], dtype=float).reshape(n, 3))
    if case.get("masses") is not None:
        atoms.set_masses(case["masses"])
    atoms.set_momenta(np.array(case["momenta"], dtype=float).reshape(n, 3))
    if stale_initial and case["initial_calc"] is not None:
        atoms.calc = used_calc(case, atoms, case["initial_calc"])
    else:
        atoms.calc = make_calc(case)
    with warnings.catch_warnings():
        warnings.simplefilter("ignore")  # "No FixCom constraint found"
        if case["cls"] == "afb":
            sim = AdaptiveForceBias(atoms, float(case["min_delta"]), float(case["max_delta"]), float(case["T"]),
                                    scheme="forces", reference_variance=float(case["ref"]),
                                    update_function=case["fn"], seed=int(case["seed"]))
        else:
            delta = case["delta"]
            if isinstance(delta, list):
                delta = np.array(delta, dtype=float).reshape(n, 3)
            sim = ForceBias(atoms, delta, float(case["T"]), seed=int(case["seed"]))
    pw = case["power"]
    if pw["kind"] == "float":
        sim.masses_scaling_power = float(pw["value"])
    elif pw["kind"] == "npfloat":
        sim.masses_scaling_power = np.float64(pw["value"])
    elif pw["kind"] == "array":
        sim.masses_scaling_power = np.array(pw["value"], dtype=float).reshape(n, 3)
    elif pw["kind"] == "dict":
        sim.masses_scaling_power = {k: float(v) for k, v in pw["value"].items()}
    sh = case.get("shaped")
    if sh is not None:
        arr = np.array(sh["value"], dtype=float)
        sim.update_masses(arr if sh["kind"] == "1d" else arr.reshape(n, 3))
    return sim, atoms


def instrument(sim, ctx):
    """wrap the generator and `step` of a (new or rebuilt) simulation object"""
    n = len(sim.atoms)
    common.set_rng(sim, Recorder(common.get_rng(sim), ctx))
    inner = sim.step

    def step():
        start = sim.atoms.get_positions().copy()
        before = int(sim.step_count)
        ctx["rounds"] = 0
        out = inner()
        import numpy as np

        ctx["records"].append({
            "t": "S", "count": before + 1, "count_inside_step": int(sim.step_count), "draws": len(ctx["log"]),
            "pos": [float(x) for x in sim.atoms.get_positions().reshape(-1)],
            "mom": [float(x) for x in sim.atoms.get_momenta().reshape(-1)],
            "delta": flat(sim.delta, n),
            "gamma": [float(x) for x in np.asarray(sim.gamma, dtype=float).reshape(-1)],
            "start": [float(x) for x in start.reshape(-1)],
        })
        return out

    sim.step = step


def cache_of(sim):
    calc = sim.atoms.calc
    if calc is None or not calc.results or calc.atoms is None:
        return None
    return [float(x) for x in calc.atoms.get_positions().reshape(-1)]


def event_record(sim, ctx):
    n = len(sim.atoms)
    return {"t": "E", "count": int(sim.step_count), "draws": len(ctx["log"]),
            "pos": [float(x) for x in sim.atoms.get_positions().reshape(-1)],
            "mom": [float(x) for x in sim.atoms.get_momenta().reshape(-1)],
            "delta": flat(sim.delta, n), "cache": cache_of(sim)}


def restart(sim, case):
    """`to_dict()` -> ASE JSON text -> `from_dict()` + a FRESH calculator"""
    import warnings

    from ase.io.jsonio import decode, encode

    text = encode(sim.to_dict())
    data = decode(text)
    with warnings.catch_warnings():
        warnings.simplefilter("ignore")
        new = type(sim).from_dict(data)
    new.atoms.calc = make_calc(case)
    return new


def execute(case, events, stale_initial=True):
    """run a history on the real object; returns the observation dictionary"""
    import numpy as np

    ctx = {"log": [], "calls": [], "unknown": [], "stream_mismatch": [], "records": [], "rounds": 0,
           "ref": np.random.Generator(np.random.PCG64(int(case["seed"])))}
    sim, atoms = build(case, stale_initial)
    cls = type(sim)
    instrument(sim, ctx)
    n = len(atoms)
    terminated = True
    try:
        for ev in events:
            if ev[0] == "run":
                sim.run(int(ev[1]))
            elif ev[0] == "edit":
                sim.atoms.set_positions(np.array(ev[1], dtype=float).reshape(n, 3))
                sim.atoms.set_momenta(np.array(ev[2], dtype=float).reshape(n, 3))
            elif ev[0] == "restart":
                sim = restart(sim, case)
                instrument(sim, ctx)
            elif ev[0] == "attach":
                sim.atoms.calc = make_calc(case) if ev[1] is None else used_calc(case, sim.atoms, ev[1])
            ctx["records"].append(event_record(sim, ctx))
    except RoundBudget:
        terminated = False
    same_class = type(sim) is cls
    return {
        "terminated": terminated, "records": ctx["records"], "stream": ctx["log"], "unknown": ctx["unknown"][:5],
        "stream_mismatch": ctx["stream_mismatch"][:5], "same_class": same_class,
        "rng_state_is_reference": common.get_rng(sim).bit_generator.state == ctx["ref"].bit_generator.state,
        "shaped_masses": flat(sim.shaped_masses, n),
    }


# --------------------------------------------------------------------------- independent readings of the case


def power_array(case):
    n = len(case["symbols"])
    pw = case["power"]
    if pw["kind"] in ("float", "npfloat"):
        return [float(pw["value"])] * (3 * n)
    if pw["kind"] == "array":
        return [float(x) for x in pw["value"]]
    if pw["kind"] == "dict":
        return [float(pw["value"].get(s, 0.25)) for s in case["symbols"] for _ in range(3)]
    return [0.25] * (3 * n)


def mass_array(case):
    from ase import Atoms

    n = len(case["symbols"])
    sh = case.get("shaped")
    if sh is not None:
        if sh["kind"] == "1d":
            return [float(x) for x in sh["value"] for _ in range(3)]
        return [float(x) for x in sh["value"]]
    if case.get("masses") is not None:
        return [float(x) for x in case["masses"] for _ in range(3)]
    return [float(x) for x in Atoms(case["symbols"]).get_masses() for _ in range(3)]


def delta_array(case):
    n = len(case["symbols"])
    if case["cls"] == "afb":
        return [(float(case["min_delta"]) + float(case["max_delta"])) / 2] * (3 * n)
    d = case["delta"]
    if isinstance(d, list):
        return [float(x) for x in d]
    return [float(d)] * (3 * n)


def expected_delta(case, start):
    """what the property says the delta of a step starting at `start` is (numpy, independent of the object)"""
    import numpy as np

    n = len(case["symbols"])
    k = np.array(case["k"], dtype=float).reshape(n, 3)
    c = np.array(case["c"], dtype=float).reshape(n, 3)
    _, fc = committee(np.array(start, dtype=float).reshape(n, 3), k, c, [float(e) for e in case["es"]])
    vc = np.std(fc, axis=0) / np.mean(np.abs(fc), axis=0)
    ref = float(case["ref"])
    if case["fn"] == "tanh":
        upd = 1 - np.tanh(vc / ref * math.atanh(0.5))
    else:
        upd = np.exp(-vc / ref * math.log(2))
    lo, hi = float(case["min_delta"]), float(case["max_delta"])
    return [float(x) for x in (lo + (hi - lo) * upd).reshape(-1)]


def expected_gamma(case, start, delta):
    """`clip(F·delta / 2kT)` with the forces of the configuration `start` (numpy, independent of the object)"""
    import numpy as np
    from ase.units import kB

    n = len(case["symbols"])
    k = np.array(case["k"], dtype=float).reshape(n, 3)
    c = np.array(case["c"], dtype=float).reshape(n, 3)
    f, _ = committee(np.array(start, dtype=float).reshape(n, 3), k, c, [float(e) for e in case["es"]])
    g = np.clip(f * np.array(delta, dtype=float).reshape(n, 3) / (2 * float(case["T"]) * kB), -709.782712, 709.782712)
    return [float(x) for x in g.reshape(-1)]


def merged(events):
    """consecutive run() calls replaced by one"""
    out = []
    for ev in events:
        if ev[0] == "run" and out and out[-1][0] == "run":
            out[-1] = ["run", out[-1][1] + ev[1]]
        else:
            out.append(list(ev))
    return out


def straight(events):
    """the history without restarts and calculator attachments"""
    return [list(ev) for ev in events if ev[0] in ("run", "edit")]


def steps_of(obs):
    return [r for r in obs["records"] if r["t"] == "S"]


# --------------------------------------------------------------------------- the suite


class FBDriverHistories(common.Suite):
    name = "FBDriverHistories"

    def __init__(self):
        self._last = None

    def corpus_cases(self):
        return []

    # ------------------------------------------------------------------ generator
    def cases(self, rng, tier):
        from ase.data import chemical_symbols

        n = 500 if tier == "quick" else 4500
        for i in range(n):
            nat = rng.randint(2, 6)
            symbols = [chemical_symbols[rng.randint(1, 92)] for _ in range(nat)]
            if rng.random() < 0.4:  # repeated elements (dict powers, equal masses)
                symbols = [rng.choice(symbols[: max(1, nat // 2)]) for _ in range(nat)]
            cls = "afb" if rng.random() < 0.6 else "fb"
            r = rng.random()
            if r < 0.15:
                power = {"kind": "default", "value": 0.25}
            elif r < 0.45:
                power = {"kind": rng.choice(["float", "npfloat"]), "value": rng.choice([0.0, 1.0, 0.5, rng.random()])}
            elif r < 0.75:
                power = {"kind": "array", "value": [rng.choice([0.0, 1.0, rng.random()]) for _ in range(3 * nat)]}
            else:
                els = sorted(set(symbols))
                power = {"kind": "dict", "value": {e: rng.choice([0.0, 1.0, rng.random()]) for e in els if rng.random() < 0.8}}
            masses = [rng.uniform(1.0, 240.0) for _ in range(nat)] if rng.random() < 0.4 else None
            shaped = None
            r = rng.random()
            if r < 0.2:
                shaped = {"kind": "1d", "value": [rng.uniform(1.0, 240.0) for _ in range(nat)]}
            elif r < 0.4:
                shaped = {"kind": "2d", "value": [rng.uniform(1.0, 240.0) for _ in range(3 * nat)]}

            def config(scale=2.0):
                return [rng.uniform(-scale, scale) for _ in range(3 * nat)]

            pos = config()
            case = {
                "cls": cls, "symbols": symbols, "positions": pos, "momenta": [rng.uniform(-1, 1) for _ in range(3 * nat)],
                "masses": masses, "shaped": shaped, "power": power, "T": 10.0 ** rng.uniform(1.5, 3.5),
                "k": [10.0 ** rng.uniform(-1, 1.5) for _ in range(3 * nat)], "c": config(1.0),
                "es": [rng.uniform(-0.9, 0.9) for _ in range(rng.randint(3, 5))],
                "seed": rng.randint(0, 2**31 - 1),
                "initial_calc": config() if rng.random() < 0.3 else None,
            }
            if cls == "afb":
                case.update({"min_delta": 10.0 ** rng.uniform(-3, -1.3), "max_delta": 10.0 ** rng.uniform(-1, -0.3),
                             "ref": rng.choice([0.05, 0.1, 0.5, 10.0 ** rng.uniform(-2, 0)]),
                             "fn": rng.choice(["tanh", "exp"])})
            else:
                case["delta"] = (10.0 ** rng.uniform(-3, -0.3) if rng.random() < 0.5
                                 else [10.0 ** rng.uniform(-3, -0.3) for _ in range(3 * nat)])
            events = []
            cur = list(pos)
            for _ in range(rng.randint(3, 9)):
                kind = rng.choice(["run", "run", "run", "edit", "restart", "restart", "attach"])
                if kind == "run":
                    events.append(["run", rng.choice([0, 1, 1, 2, 2, 3, 4])])
                elif kind == "edit":
                    if rng.random() < 0.5:
                        cur = config()
                    else:
                        cur = [x + rng.choice([-1, 1]) * 10.0 ** rng.uniform(-3, 0) for x in cur]
                    events.append(["edit", list(cur), [rng.uniform(-1, 1) for _ in range(3 * nat)]])
                elif kind == "restart":
                    events.append(["restart"])
                else:
                    events.append(["attach", config() if rng.random() < 0.7 else None])
                if kind != "run" and rng.random() < 0.8:  # what the event did must be exercised by a run
                    events.append(["run", rng.choice([0, 1, 1, 2, 3])])
            if not any(ev[0] == "run" and ev[1] > 0 for ev in events):
                events.append(["run", 2])
            case["events"] = events
            yield case

    # ------------------------------------------------------------------ real code
    def real(self, case):
        self._last = None
        obs = execute(case, case["events"])
        obs["merged"] = None
        obs["straight"] = None
        if obs["terminated"]:
            m = merged(case["events"])
            if m != case["events"]:
                o = execute(case, m)
                obs["merged"] = {"records": o["records"], "terminated": o["terminated"]}
            s = straight(case["events"])
            if s != case["events"] or case["initial_calc"] is not None:
                o = execute(case, s, stale_initial=False)
                obs["straight"] = {"records": o["records"], "terminated": o["terminated"],
                                   "rng_state_is_reference": o["rng_state_is_reference"]}
            self._last = (id(case), obs["stream"])
        return obs

    # ------------------------------------------------------------------ model
    def model_lines(self, case):
        if self._last is None or self._last[0] != id(case):
            return []
        from ase.units import kB

        stream = self._last[1]
        n = len(case["symbols"])
        afb = case["cls"] == "afb"
        evs = []
        for ev in case["events"]:
            if ev[0] == "run":
                evs.append(f"run:{int(ev[1])}")
            elif ev[0] == "edit":
                evs.append(f"edit:{common.fl(ev[1])}:{common.fl(ev[2])}")
            elif ev[0] == "restart":
                evs.append("restart")
            else:
                evs.append("attach:" + ("none" if ev[1] is None else common.fl(ev[1])))
        return [" ".join([
            "fbd", case["cls"], "v", str(n), common.fbits(float(case["T"]) * kB), common.fl(mass_array(case)),
            common.fl(power_array(case)), common.fl(delta_array(case)),
            common.fbits(case["min_delta"] if afb else 0.0), common.fbits(case["max_delta"] if afb else 0.0),
            common.fbits(case["ref"] if afb else 1.0), case["fn"] if afb else "tanh",
            common.fl(case["k"]), common.fl(case["c"]), common.fl(case["es"]), common.fl(case["positions"]),
            common.fl(case["momenta"]), "none" if case["initial_calc"] is None else common.fl(case["initial_calc"]),
            common.fbits(THR), common.fl(stream), "|".join(evs)])]

    def model_obs(self, case, outs):
        w = outs[0].split()
        if w[0] != "ok":
            return {"status": outs[0][:200], "records": []}
        recs = []
        if w[1] != "-":
            for r in w[1].split("|"):
                f = r.split(":")
                if f[0] == "S":
                    recs.append({"t": "S", "count": int(f[1]), "draws": int(f[2]), "status": f[3], "fragile": f[4] == "true",
                                 "pos": common.lf(f[5]), "mom": common.lf(f[6]), "delta": common.lf(f[7]),
                                 "gamma": common.lf(f[8])})
                else:
                    recs.append({"t": "E", "count": int(f[1]), "draws": int(f[2]), "pos": common.lf(f[3]),
                                 "mom": common.lf(f[4]), "delta": common.lf(f[5]),
                                 "cache": None if f[6] == "none" else common.lf(f[6])})
        return {"status": "ok", "records": recs}

    def compare(self, case, real, model):
        if "exception" in real:
            return [f"real code raised {real['exception']}: {real.get('message')}"]
        diffs = []
        if real["unknown"]:
            diffs.append(f"generator used in a way the stream model does not know: {real['unknown']}")
        if not real["terminated"]:
            return [*diffs, "a real step did not terminate within the round budget"]
        if model["status"] != "ok":
            return [*diffs, f"model driver: {model['status']}"]
        from ase.units import kB

        kT = float(case["T"]) * kB
        rr, mr = real["records"], model["records"]
        STATS["cases_tied"] += 1
        STATS["draws_replayed"] += len(real["stream"])
        for i, (a, b) in enumerate(zip(rr, mr)):
            if a["t"] != b["t"]:
                diffs.append(f"record {i}: real {a['t']} model {b['t']}")
                return diffs
            if b["t"] == "S" and b["fragile"]:
                # an acceptance decision within rounding noise: from here on the two may legitimately part
                STATS["cases_cut_at_fragile_decision"] += 1
                STATS["steps_not_compared_after_fragile"] += sum(1 for r in rr[i:] if r["t"] == "S")
                return diffs
            if b["t"] == "S" and b["status"] != "ok":
                diffs.append(f"record {i} (step {a['count']}): model {b['status']} on the recorded stream, real step returned")
                return diffs
            for key in ("count", "draws"):
                if a[key] != b[key]:
                    diffs.append(f"record {i} ({a['t']}, step_count {a['count']}): {key} real={a[key]} model={b[key]}")
            keys = ["pos", "mom", "delta"] + (["gamma"] if b["t"] == "S" else [])
            for key in keys:
                x, y = a[key], b[key]
                if len(x) != len(y):
                    diffs.append(f"record {i}: {key} length {len(x)} vs {len(y)}")
                    continue
                for j, (u, v) in enumerate(zip(x, y)):
                    abs_ = 1e-300
                    if key == "pos":
                        # x + displacement may cancel: the rounding error is relative to the larger operand
                        abs_ = 1e-12 * (max(abs(a["start"][j]), abs(b["delta"][j])) if b["t"] == "S"
                                        else max(abs(t) for t in x))
                    if key == "gamma":
                        # gamma = -k (x - c) delta / 2kT: positions that agree to 1e-12 relative (the tolerance above) give
                        # gammas that agree to 1e-12 * |d gamma/d x| * |x| — not to 1e-12 relative when x is close to c
                        abs_ = 1e-12 * abs(case["k"][j]) * abs(b["delta"][j]) / (2 * kT) * max(abs(a["start"][j]), abs(case["c"][j]))
                    if not common.close(u, v, 1e-12, abs_):
                        diffs.append(f"record {i} ({a['t']}, step_count {a['count']}): {key}[{j}] real={u!r} model={v!r}")
                        break
            if b["t"] == "E" and a["cache"] != b["cache"]:
                # the cached configuration is a configuration: same tolerance as the positions of an event record (a
                # coordinate that came to lie near 0 carries the absolute rounding error of coordinates of size 1)
                scale = max([abs(t) for t in (a["cache"] or [])] + [abs(t) for t in (b["cache"] or [])] + [1e-300])
                if a["cache"] is None or b["cache"] is None or len(a["cache"]) != len(b["cache"]) or any(
                        not common.close(u, v, 1e-12, 1e-12 * scale) for u, v in zip(a["cache"], b["cache"])):
                    diffs.append(f"record {i} (after event, step_count {a['count']}): calculator results belong to "
                                 f"real={a['cache'] and a['cache'][:3]} model={b['cache'] and b['cache'][:3]}")
            if diffs:
                return diffs[:6]
            dev = max((abs(u - v) / max(abs(u), abs(v)) for key in ("pos", "mom", "delta") for u, v in zip(a[key], b[key])
                       if u != v), default=0.0)
            STATS["max_rel_dev_pos_mom_delta"] = max(STATS["max_rel_dev_pos_mom_delta"], dev)
            STATS["records_bitwise_equal"] += int(dev == 0.0)
            STATS["records_tied"] += 1
            STATS["steps_tied"] += int(b["t"] == "S")
        if len(rr) != len(mr):
            diffs.append(f"number of records: real={len(rr)} model={len(mr)}")
        return diffs

    # ------------------------------------------------------------------ property on the real code
    def oracle(self, case, obs):
        cls = case["cls"]
        if "exception" in obs:
            return [(f"fbd:{cls}:exception:" + obs["exception"], obs.get("message", "") + obs.get("trace", "")[-600:])]
        if not obs["terminated"]:
            return [(f"fbd:{cls}:no-termination", f"more than {ROUND_BUDGET} rejection rounds in one step")]
        out = []
        steps = steps_of(obs)
        if not obs["same_class"]:
            out.append((f"fbd:{cls}:restart:class-changed", "from_dict returned another class"))
        if obs["stream_mismatch"] or not obs["rng_state_is_reference"]:
            out.append((f"fbd:{cls}:generator-stream-not-continued",
                        f"numbers returned differ from PCG64(seed) continued at draws {obs['stream_mismatch']}; "
                        f"final state equal: {obs['rng_state_is_reference']}"))
        for r in steps:
            if r["count_inside_step"] != r["count"] - 1:
                out.append((f"fbd:{cls}:step-count-touched-by-step", f"step {r['count']}"))
                break
        # step counts: consecutive over the whole history, restarts included
        if [r["count"] for r in steps] != list(range(1, len(steps) + 1)):
            out.append((f"fbd:{cls}:step-count-not-continued", f"step counts {[r['count'] for r in steps]}"))
        want = sum(ev[1] for ev in case["events"] if ev[0] == "run")
        if len(steps) != want:
            out.append((f"fbd:{cls}:number-of-steps", f"{len(steps)} steps executed, {want} requested"))

        def same(a, b, what, sig):
            sa, sb = steps_of(a), steps_of(b)
            if len(sa) != len(sb):
                return [(sig, f"{what}: {len(sa)} vs {len(sb)} steps")]
            for x, y in zip(sa, sb):
                for key in ("count", "draws", "pos", "mom", "delta"):
                    if x[key] != y[key]:
                        j = next((j for j, (u, v) in enumerate(zip(x[key], y[key])) if u != v), None) if isinstance(x[key], list) else None
                        return [(sig, f"{what}: step {x['count']}: {key}" + (f"[{j}] {x[key][j]!r} vs {y[key][j]!r}" if j is not None else f" {x[key]!r} vs {y[key]!r}"))]
            ea, eb = a["records"][-1], b["records"][-1]
            for key in ("count", "draws", "pos", "mom", "delta"):
                if ea[key] != eb[key]:
                    return [(sig, f"{what}: final {key} differs")]
            return []

        if obs["merged"] is not None:
            if not obs["merged"]["terminated"]:
                out.append((f"fbd:{cls}:no-termination", "merged history"))
            else:
                out += same(obs, obs["merged"], "run segments vs one run", f"fbd:{cls}:split-differs-from-unsplit")
        if obs["straight"] is not None:
            if not obs["straight"]["terminated"]:
                out.append((f"fbd:{cls}:no-termination", "straight history"))
            else:
                kinds = sorted({ev[0] for ev in case["events"] if ev[0] in ("restart", "attach")} | (
                    {"used-initial-calculator"} if case["initial_calc"] is not None else set()))
                out += same(obs, obs["straight"], f"history with {'+'.join(kinds)} vs the same steps straight through on a fresh calculator",
                            f"fbd:{cls}:restart-or-calculator-changes-trajectory")
        # (e) the forces every step used are those of the positions it started from
        for r in steps:
            want_g = expected_gamma(case, r["start"], r["delta"])
            bad = [j for j, (u, v) in enumerate(zip(r["gamma"], want_g)) if not common.close(u, v, 1e-9, 1e-300)]
            if bad:
                j = bad[0]
                out.append((f"fbd:{cls}:forces-not-from-current-configuration",
                            f"step {r['count']}: gamma[{j}]={r['gamma'][j]!r}, forces of the positions the step started "
                            f"from give {want_g[j]!r}"))
                break
        if cls == "afb":
            for r in steps:
                want_d = expected_delta(case, r["start"])
                bad = [j for j, (u, v) in enumerate(zip(r["delta"], want_d)) if not common.close(u, v, 1e-12)]
                if bad:
                    j = bad[0]
                    out.append((f"fbd:afb:delta-not-from-current-configuration",
                                f"step {r['count']}: delta[{j}]={r['delta'][j]!r}, committee of the positions the step "
                                f"started from gives {want_d[j]!r}"))
                    break
        else:
            d0 = delta_array(case)
            for r in steps:
                if r["delta"] != d0:
                    out.append(("fbd:fb:delta-changed", f"step {r['count']}"))
                    break
        return out[:5]

    def classify(self, case, obs):
        if "records" not in obs or not steps_of(obs):
            return None
        kinds = sorted({ev[0] for ev in case["events"] if ev[0] != "run"})
        if case["initial_calc"] is not None:
            kinds.append("used0")
        split = "split" if merged(case["events"]) != case["events"] else "nosplit"
        return f"{case['cls']}|{'+'.join(kinds) or 'runs'}|{split}"


class _View(FBDriverHistories):
    """the same histories seen by ONE property: C07 reports what restarts change, C15 what splitting changes; the tie to the
    Lean machine and the exceptions are reported by both (each property's theorems are about the same machine)"""

    keep = ()

    def oracle(self, case, obs):
        return [(sig, msg) for sig, msg in super().oracle(case, obs) if any(k in sig for k in self.keep)]


class RestartView(_View):
    name = "fb-driver-histories"
    keep = ("restart", "generator-stream", "step-count", "exception", "no-termination", "delta-changed")


class SplitView(_View):
    name = "fb-driver-histories"
    keep = ("split-differs", "number-of-steps", "step-count", "exception", "no-termination",
            "not-from-current-configuration")


def suites(tier):
    return [FBDriverHistories()]
