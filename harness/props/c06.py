"""C06 — same seed, same trajectory (DESIGN §6 C06; partial by design).

Suites
* `seed-kept`        model tie + oracle: `Driver(seed=n)._seed`, the generator's initial state and the seed after
                     `from_dict(to_dict())`, for all seven drivers, against `Seed.effectiveSeed` / `Seed.restoredSeed`
                     (the entropy source `PCG64()` is replaced by a sentinel so that `None` is tied exactly too).
* `double-run`       the gating oracle: two simulations built identically in one process, numpy's legacy global
                     generator and Python's `random` seeded differently before and perturbed differently during the two
                     runs; run B additionally under poisoned globals (recorders on the legacy functions); a third run
                     with another seed ("different seeds differ", empirical).
* `stream-isolation` the driver's generator wrapped in a RecordingRNG: two runs with one seed log the identical call
                     sequence, and the wrapped run equals the unwrapped one bit for bit.
* `run-model`        `Seed.run` (QModel/Seed.lean: yield_moves + step + irun over the M-machine) against the real
                     `MonteCarlo.irun` with a scripted generator: every value of the run comes from the one script.
* `static-scan`      AST scan of src/quansino for any other source of randomness (supporting search, not gating).
"""
from __future__ import annotations

import ast
import hashlib
import io
import os
import random as pyrandom
import sys

# 3x3 matrix functions on a many-core host spend ~80 ms per call waking BLAS threads; one thread is also the
# reproducible setting. Only effective when numpy has not been imported yet (qcheck.py imports the property first).
for _v in ("OMP_NUM_THREADS", "OPENBLAS_NUM_THREADS", "MKL_NUM_THREADS"):
    os.environ.setdefault(_v, "1")

import common  # noqa: E402
import machine  # noqa: E402

ID = "C06"
LEAN_MODULES = ["QProps.C06"]
THEOREMS = [
    "Seed.seed_honoured",
    "Seed.seed_none_fresh",
    "Seed.seed_none_fresh_raw",
    "Seed.raw_agrees_nonzero",
    "Seed.seed_zero_replaced_raw",
    "Seed.seed_honoured_raw_false",
    "Seed.same_seed_same_effective",
    "Seed.same_seed_same_effective_raw_false",
    "Seed.restored_seed",
    "Seed.restored_seed_raw_partial",
    "Seed.run_deterministic",
    "Seed.trial_deterministic",
    "Seed.step_is_trial",
    "Seed.same_seed_same_trajectory",
    "Seed.different_streams_differ_partial",
    "Seed.different_seeds_need_generator",
    "Seed.no_draws_no_difference",
]
RULE = (
    "seed-kept: 7 driver classes x seeds {None,0,1,2,2^63,2^64-1,2^127}+random, entropy source stubbed; double-run: "
    "8 simulation kinds (Canonical with a plain and a composite displacement move, HamiltonianCanonical+Verlet, "
    "Isobaric and Isotension with displacement+cell moves, GrandCanonical with atomic and with molecular template "
    "(TranslationRotation) + displacement, ForceBias, AdaptiveForceBias) x seeds (always 0, plus the special and random "
    "seeds in rotation) x 30 (quick) / 200 (thorough) steps, global generators seeded and perturbed differently in the "
    "two runs, run B under recorders on numpy.random.* / random.*; stream-isolation: every kind with a recording "
    "generator; run-model: scripted whole runs on Canonical/Hamiltonian/Isobaric/Isotension/GrandCanonical move tables "
    "from the M-machine generator; non-trivial = the run consumed at least one random value; distinct = distinct case "
    "dictionaries"
)
ASSUMPTIONS = [
    "numpy's Generator/PCG64 is an oracle: equal seed => equal stream is numpy's contract, not modelled",
    "NOT VERIFIED: different seeds give different PCG64 streams (SeedSequence/PCG64 not modelled); checked empirically "
    "only (signature seed-ignored:<kind> when two seeds give bit-identical trajectories)",
    "the model mirrors Driver.__init__ after harness/patches/C06-seed-zero.diff (seed if seed is not None else ...)",
    "run-model: table probabilities are uniform and max_cycles = 1, the scripted generator's choice is a[d % len(a)]",
    "calculators used in the double runs (ASE EMT, a numpy pair potential) are deterministic functions of the atoms",
]

KINDS = ["can", "ham", "isob", "isot", "gc", "gcmol", "fb", "afb"]
SPECIAL_SEEDS = [1, 2, 2**63, 2**64 - 1, 2**127]
SENTINEL = 987654321987654321  # what the stubbed entropy source returns

NP_LEGACY = ["random", "rand", "randn", "randint", "choice", "uniform", "normal", "standard_normal", "shuffle",
             "permutation", "random_sample", "sample", "ranf", "bytes", "exponential", "poisson"]
PY_LEGACY = ["random", "uniform", "choice", "randint", "gauss", "shuffle", "randrange", "sample", "normalvariate",
             "choices", "getrandbits"]


# --------------------------------------------------------------------------------------------- real side

_ENV: dict = {}


def env():
    if _ENV:
        return _ENV
    import warnings

    warnings.simplefilter("ignore")
    import numpy as np
    import quansino.mc  # noqa: F401  (import order: see C08)
    import quansino.mc.driver as qdriver
    from ase import Atoms
    from ase.build import bulk
    from ase.calculators.calculator import Calculator, all_changes
    from ase.calculators.emt import EMT
    from ase.constraints import FixCom
    from quansino.integrators.displacement import Verlet
    from quansino.io.core import Observer
    from quansino.mc.canonical import Canonical, HamiltonianCanonical
    from quansino.mc.criteria import CanonicalCriteria
    from quansino.mc.fbmc import AdaptiveForceBias, ForceBias
    from quansino.mc.gcmc import GrandCanonical
    from quansino.mc.isobaric import Isobaric
    from quansino.mc.isotension import Isotension
    from quansino.moves.cell import CellMove
    from quansino.moves.displacement import DisplacementMove, HamiltonianDisplacementMove
    from quansino.moves.exchange import ExchangeMove
    from quansino.operations.cell import AnisotropicDeformation, IsotropicDeformation
    from quansino.operations.displacement import Ball, Box, Sphere, Translation, TranslationRotation

    class PairCalc(Calculator):
        """stateless numpy potential (soft well + Gaussian pair repulsion); any number of atoms; optional committee"""

        implemented_properties = ["energy", "forces"]  # noqa: RUF012

        def __init__(self, committee=False):
            super().__init__()
            self.committee = committee

        def calculate(self, atoms=None, properties=None, system_changes=all_changes):
            super().calculate(atoms, properties, system_changes)
            p = self.atoms.get_positions()
            c = p - 1.8
            e = 0.02 * float((c * c).sum())
            f = -0.04 * c
            if len(p) > 1:
                d = p[:, None, :] - p[None, :, :]
                g = 0.5 * np.exp(-0.5 * (d * d).sum(-1))
                np.fill_diagonal(g, 0.0)
                e += 0.5 * float(g.sum())
                f = f + (g[:, :, None] * d).sum(1)
            self.results = {"energy": e, "forces": f}
            if self.committee:
                self.results["forces_comm"] = np.stack([0.9 * f + 0.01, f, 1.1 * f - 0.01])
                self.results["energies"] = np.array([0.99 * e, e, 1.01 * e])

    class Perturber(Observer):
        """an observer that consumes the *global* generators a varying number of times (and sometimes reseeds them)"""

        def __init__(self, seed, orig):
            super().__init__(1)
            self.r = pyrandom.Random(seed)  # private instance: decides how much to perturb, is not a global
            self.orig = orig
            self.calls = 0

        def __call__(self, *a, **k):
            self.calls += 1
            for _ in range(self.r.randrange(0, 4)):
                self.orig["np.random"]()
                self.orig["py.random"]()
            if self.r.random() < 0.1:
                self.orig["np.seed"](self.r.randrange(2**32))
                self.orig["py.seed"](self.r.randrange(2**32))
            if self.r.random() < 0.2:
                self.orig["np.standard_normal"](3)
                self.orig["py.gauss"](0.0, 1.0)

        def attach_simulation(self, *a, **k):
            pass

        def close(self):
            pass

    _ENV.update(locals())
    return _ENV


def build(kind, seed, calc="auto", logfile=None, size=1, sibling=False):
    """one simulation of the given kind on a small rattled Cu cell; returns the driver (atoms at .atoms). `sibling`: the
    same class, symbols, temperature and settings, but other masses (an isotope) for the atoms and the exchange species — a
    second simulation that anything memoised per (symbols, temperature, class) would confuse with the first"""
    E = env()
    np = E["np"]
    a = E["bulk"]("Cu", cubic=True)
    if size > 1:
        a = a * (size, 1, 1)
    a.rattle(0.05, seed=3)
    if sibling:
        a.set_masses(a.get_masses() * 1.37)
    exchange = kind in ("gc", "gcmol")
    if calc == "auto":
        # EMT's neighbour list does not follow a changing number of atoms through quansino's state restoration
        calc = "pair" if exchange or kind == "afb" else "emt"
    a.calc = E["EMT"]() if calc == "emt" else E["PairCalc"](committee=(kind == "afb"))
    n = len(a)
    kw = dict(seed=seed, logfile=logfile)
    if kind == "can":
        mc = E["Canonical"](a, temperature=2000.0, max_cycles=3, **kw)
        # a forced move (minimum_count) makes the scheduler draw slot indices, a weight-0.25 move the weighted choice
        mc.add_move(E["DisplacementMove"](np.arange(n), E["Ball"](0.2)), name="ball", minimum_count=1)
        mc.add_move(E["DisplacementMove"](np.arange(n), E["Sphere"](0.05)), name="every-other", interval=2,
                    probability=0.25, minimum_count=1)
        comp = E["DisplacementMove"](np.arange(n), E["Box"](0.1)) + E["DisplacementMove"](np.arange(n), E["Sphere"](0.1))
        mc.add_move(comp, criteria=E["CanonicalCriteria"](), name="comp", probability=0.5)
    elif kind == "ham":
        mv = E["HamiltonianDisplacementMove"](operation=E["Verlet"](dt=2.0, max_steps=3))
        mc = E["HamiltonianCanonical"](a, temperature=1500.0, max_cycles=1, default_displacement_move=mv, **kw)
    elif kind in ("isob", "isot"):
        cls = E["Isobaric"] if kind == "isob" else E["Isotension"]
        op = E["IsotropicDeformation"](0.03) if kind == "isob" else E["AnisotropicDeformation"](0.02)
        # a non-zero pressure (and, for the isotension driver, a stress with shear): the two ensembles then judge the
        # same cell trial differently, so a criteria object of the wrong kind shows in the trajectory
        extra = {} if kind == "isob" else {"external_stress": np.array([[0.02, 0.004, 0.0], [0.004, 0.01, 0.0], [0.0, 0.0, 0.015]])}
        mc = cls(a, temperature=1500.0, pressure=0.2, max_cycles=2,
                 default_displacement_move=E["DisplacementMove"](np.arange(n), E["Ball"](0.1)),
                 default_cell_move=E["CellMove"](op), **extra, **kw)
        mc.moves["default_cell_move"].probability = 0.5
        mc.moves["default_displacement_move"].probability = 0.5
    elif kind == "gc":
        species = E["Atoms"]("Cu")
        if sibling:
            species.set_masses(species.get_masses() * 1.37)
        # chemical potentials at which insertions AND deletions are accepted with intermediate probability (at 0.3 eV every
        # trial was accepted: a criteria that miscounts by a factor 1.6 changed no decision)
        mc = E["GrandCanonical"](a, species, temperature=4000.0, chemical_potential=-4.0, max_cycles=3,
                                 number_of_exchange_particles=n,
                                 default_exchange_move=E["ExchangeMove"](np.arange(n), E["Translation"]()),
                                 default_displacement_move=E["DisplacementMove"](np.arange(n)), **kw)
        mc.moves["default_displacement_move"].minimum_count = 1
    elif kind == "gcmol":
        h2 = E["Atoms"]("H2", positions=[[0, 0, 0], [0, 0, 0.74]])
        if sibling:
            h2.set_masses([2.014, 2.014])
        mc = E["GrandCanonical"](a, h2, temperature=4000.0, chemical_potential=-2.0, max_cycles=3,
                                 number_of_exchange_particles=0,
                                 default_exchange_move=E["ExchangeMove"](np.full(n, -1), E["TranslationRotation"]()),
                                 default_displacement_move=E["DisplacementMove"](np.arange(n)), **kw)
    elif kind == "fb":
        a.set_constraint(E["FixCom"]())
        mc = E["ForceBias"](a, delta=0.1, temperature=1000.0, **kw)
    elif kind == "afb":
        a.set_constraint(E["FixCom"]())
        mc = E["AdaptiveForceBias"](a, 0.05, 0.2, temperature=1000.0, **kw)
    else:
        raise ValueError(kind)
    return mc


def dg(*arrays) -> str:
    h = hashlib.sha256()
    for x in arrays:
        h.update(x.tobytes())
        h.update(str(x.shape).encode())
    return h.hexdigest()[:16]


def rng_state_str(mc) -> str:
    st = common.get_rng(mc).bit_generator.state
    return f"{st['bit_generator']}:{st['state']['state']}:{st['state']['inc']}:{st['has_uint32']}:{st['uinteger']}"


def originals():
    import numpy as np

    return {"np.random": np.random.random, "py.random": pyrandom.random, "np.seed": np.random.seed,
            "py.seed": pyrandom.seed, "np.standard_normal": np.random.standard_normal, "py.gauss": pyrandom.gauss}


def preuse_components(kind, mc, seed, calc, size):
    """the move / operation / criteria OBJECTS of `mc` have already served another simulation (own seed, own atoms, own
    generator) in this process — a move table defined once and reused over a loop of seeds or replicas. Nothing of that
    earlier simulation may reach the next one: "all randomness … is drawn from the simulation's own generator"."""
    if kind not in ("can", "ham", "isob", "isot"):      # exchange moves carry per-simulation labels; force bias has no moves
        return False
    other = build(kind, (seed * 31 + 977) % (2**63), calc=calc, size=size)
    for name, st in mc.moves.items():
        other.moves[name].move = st.move
        other.moves[name].criteria = st.criteria
    for st in other.irun(3):
        if hasattr(st, "__next__"):  # MonteCarlo.step is a generator of move names
            for _ in st:
                pass
    try:
        other.close()
    except Exception:  # noqa: BLE001
        pass
    return True


def one_run(kind, seed, steps, gseed=None, pseed=None, orig=None, wrap_rng=False, size=1, calc="auto", preuse=False):
    """build and run one simulation; per-step digests of everything observable. `gseed` seeds the global generators
    before construction, `pseed` drives the perturber that is attached as an observer and also called between moves."""
    E = env()
    np = E["np"]
    orig = orig or originals()
    if gseed is not None:
        orig["np.seed"](gseed[0])
        orig["py.seed"](gseed[1])
    log = io.StringIO()
    if gseed is not None:
        # other simulations live in the same process: one object of every OTHER driver class is built (and takes a step)
        # before this one; nothing they do may reach it (class-level dictionaries, module-level caches, shared defaults)
        for other in KINDS:
            try:
                # (of the run's own class: a sibling with other masses, same symbols and temperature)
                o = build(other, (seed + 1) % 2**63, calc=calc, logfile=io.StringIO(), size=1, sibling=(other == kind))
                o.run(2 if other == kind else 1)
            except Exception:  # noqa: BLE001  (a decoy that cannot be built says nothing about this run)
                pass
        orig["np.seed"](gseed[0])
        orig["py.seed"](gseed[1])
    mc = build(kind, seed, calc=calc, logfile=log, size=size)
    if preuse:
        preuse_components(kind, mc, seed, calc, size)
    reclog = None
    if wrap_rng:
        rec = RecordingRNG(common.get_rng(mc))
        reclog = rec.log
        common.set_rng(mc, rec)
        if hasattr(mc, "context"):
            mc.context.rng = rec
    pert = None
    if pseed is not None:
        pert = E["Perturber"](pseed, orig)
        mc.file_manager.attach_observer("perturber", pert)
    at = mc.atoms
    obs = {"pos": [], "cell": [], "numbers": [], "momenta": [], "history": [], "accept": [], "natoms": []}
    for st in mc.irun(steps):
        if hasattr(st, "__next__"):  # MonteCarlo.step is a generator of move names
            for _ in st:
                if pert is not None:
                    pert()
        obs["pos"].append(dg(at.get_positions()))
        obs["cell"].append(dg(at.cell.array))
        obs["numbers"].append(dg(at.numbers))
        obs["momenta"].append(dg(at.get_momenta()))
        obs["natoms"].append(len(at))
        if hasattr(mc, "move_history"):
            obs["history"].append([[str(nm), None if v is None else bool(v)] for nm, v in mc.move_history])
            obs["accept"].append(common.fbits(float(mc.acceptance_rate)))
    obs["log"] = log.getvalue()
    obs["step_count"] = int(mc.step_count)
    obs["seed"] = int(common.get_seed(mc))
    obs["rng_state"] = rng_state_str(mc)
    obs["final"] = dg(at.get_positions(), at.cell.array, at.numbers, at.get_momenta())
    if hasattr(mc, "moves"):
        obs["labels"] = dg(*[np.asarray(getattr(m, "labels", [])) for ms in mc.moves.values()
                             for m in (getattr(ms.move, "moves", None) or [ms.move])])
    if reclog is not None:
        obs["reclog"] = reclog
    try:
        mc.close()
    except Exception:  # noqa: BLE001  (closing the in-memory files is not under test)
        pass
    return obs


OBSERVABLES = ["seed", "pos", "cell", "numbers", "momenta", "natoms", "history", "accept", "log", "step_count",
               "rng_state", "final", "labels"]


def first_diff(a, b):
    """names of the observables in which two runs differ, with the first differing step where there is one"""
    out = []
    for k in OBSERVABLES:
        if a.get(k) != b.get(k):
            where = ""
            if isinstance(a.get(k), list) and isinstance(b.get(k), list):
                n = next((i for i, (x, y) in enumerate(zip(a[k], b[k])) if x != y), min(len(a[k]), len(b[k])))
                where = f"@step{n + 1}"
            out.append(k + where)
    return out


class RecordingRNG:
    """delegates to a real Generator and logs every call (method, shape of the request, digest of the result)"""

    def __init__(self, gen):
        object.__setattr__(self, "_gen", gen)
        object.__setattr__(self, "log", [])

    @property
    def bit_generator(self):
        return self._gen.bit_generator

    def __getattr__(self, name):
        target = getattr(self._gen, name)
        if not callable(target):
            return target
        log = self.log

        def call(*a, **k):
            import numpy as np

            r = target(*a, **k)
            req = ",".join([_argsig(x) for x in a] + [f"{kk}={_argsig(v)}" for kk, v in sorted(k.items())])
            log.append([name, req, dg(np.asarray(r))])
            return r

        return call


def _argsig(x):
    import numpy as np

    if isinstance(x, (int, float, str, bool, type(None), tuple)):
        return repr(x)
    x = np.asarray(x)
    return f"array{x.shape}"


def quansino_src() -> str:
    """the directory the running quansino was imported from"""
    import os

    import quansino

    return os.path.dirname(os.path.abspath(quansino.__file__))


class Poison:
    """recorders on numpy's legacy global functions and on the `random` module functions (np.random.seed left alone)"""

    def __init__(self):
        self.calls = []
        self.saved = []

    def __enter__(self):
        import numpy as np

        for mod, mname, names in ((np.random, "np.random", NP_LEGACY), (pyrandom, "random", PY_LEGACY)):
            for nm in names:
                if not hasattr(mod, nm):
                    continue
                o = getattr(mod, nm)
                self.saved.append((mod, nm, o))
                setattr(mod, nm, self._rec(f"{mname}.{nm}", o))
        return self

    def _rec(self, label, o):
        calls = self.calls

        def rec(*a, **k):
            files = []
            f = sys._getframe(1)
            while f is not None and len(files) < 60:
                files.append(f.f_code.co_filename)
                f = f.f_back
            calls.append((label, files))
            return o(*a, **k)

        return rec

    def __exit__(self, *exc):
        for mod, nm, o in self.saved:
            setattr(mod, nm, o)
        return False

    def classify(self):
        """(violations, third_party): a call is quansino's when the nearest frame outside numpy/random is in
        src/quansino; a call that merely passes through quansino (ASE-internal use below it) is reported only"""
        import os

        src = quansino_src()

        alt = os.path.realpath(src)
        viol, third = [], []
        for label, files in self.calls:
            through = [f for f in files if f.startswith(src) or os.path.realpath(f).startswith(alt)]
            if not through:
                if any("/ase/" in f for f in files):
                    third.append(f"{label}:ase-only")
                continue
            nearest = next((f for f in files if "/numpy/" not in f and not f.endswith("/random.py")), files[0])
            if nearest.startswith(src) or os.path.realpath(nearest).startswith(alt):
                rel = os.path.realpath(nearest)[len(alt):].lstrip("/")
                viol.append(f"global-rng:{label}:{rel}")
            else:
                third.append(f"{label}:via:{os.path.basename(nearest)}")
        return sorted(set(viol)), sorted(set(third))


class ShiftedClock:
    """the second run of a pair happens "at another time": `time.time`, `localtime`, `gmtime`, `ctime`, `asctime`,
    `strftime` (without an explicit time), `monotonic`, `perf_counter` and `datetime.now/utcnow/today` are shifted by
    one hour and 17 seconds. Nothing a simulation writes may depend on when it ran."""

    SHIFT = 3617.0

    def __enter__(self):
        import datetime as _dt
        import time as _t

        self._t = _t
        self._saved = {n: getattr(_t, n) for n in ("time", "localtime", "gmtime", "ctime", "asctime", "strftime",
                                                   "monotonic", "perf_counter")}
        sv, sh = self._saved, self.SHIFT
        _t.time = lambda: sv["time"]() + sh
        _t.monotonic = lambda: sv["monotonic"]() + sh
        _t.perf_counter = lambda: sv["perf_counter"]() + sh
        _t.localtime = lambda secs=None: sv["localtime"](sv["time"]() + sh if secs is None else secs)
        _t.gmtime = lambda secs=None: sv["gmtime"](sv["time"]() + sh if secs is None else secs)
        _t.ctime = lambda secs=None: sv["ctime"](sv["time"]() + sh if secs is None else secs)
        _t.asctime = lambda t=None: sv["asctime"](_t.localtime() if t is None else t)
        _t.strftime = lambda fmt, t=None: sv["strftime"](fmt, _t.localtime() if t is None else t)
        self._dt_mod = _dt
        self._dt_saved = _dt.datetime

        class _Shifted(_dt.datetime):
            @classmethod
            def now(cls, tz=None):
                return _dt.datetime.fromtimestamp(sv["time"]() + sh, tz)

            @classmethod
            def utcnow(cls):
                return _dt.datetime.fromtimestamp(sv["time"]() + sh, _dt.timezone.utc).replace(tzinfo=None)

            @classmethod
            def today(cls):
                return cls.now()

        _dt.datetime = _Shifted
        return self

    def __exit__(self, *exc):
        for n, f in self._saved.items():
            setattr(self._t, n, f)
        self._dt_mod.datetime = self._dt_saved
        return False


class GlobalsKept:
    """leave the process's global generator states as they were"""

    def __enter__(self):
        import numpy as np

        self.np_state = np.random.get_state()
        self.py_state = pyrandom.getstate()

    def __exit__(self, *exc):
        import numpy as np

        np.random.set_state(self.np_state)
        pyrandom.setstate(self.py_state)
        return False


# --------------------------------------------------------------------------------------------- suite 1


def seed_token(s):
    return "none" if s is None else str(s)


class SeedKept(common.Suite):
    name = "seed-kept"
    classes = ["Canonical", "HamiltonianCanonical", "Isobaric", "Isotension", "GrandCanonical", "ForceBias",
               "AdaptiveForceBias"]

    def cases(self, rng, tier):
        seeds = [None, 0, *SPECIAL_SEEDS]
        seeds += [rng.randrange(2**64) for _ in range(3 if tier == "quick" else 40)]
        seeds += [rng.randrange(2**200) for _ in range(1 if tier == "quick" else 10)]
        for cls in self.classes:
            for s in seeds:
                yield {"cls": cls, "seed": s}
            # the same integers as numpy integer scalars (`for seed in np.arange(3)`, `rng.integers(...)`): integers all the same
            for s in [0, 1, 42, rng.randrange(2**63)]:
                yield {"cls": cls, "seed": s, "as": "np.int64"}
            yield {"cls": cls, "seed": rng.randrange(2**63, 2**64), "as": "np.uint64"}

    def construct(self, cls, seed):
        E = env()
        a = E["bulk"]("Cu", cubic=True)
        a.calc = E["PairCalc"]()
        if cls in ("ForceBias", "AdaptiveForceBias"):
            a.set_constraint(E["FixCom"]())
        C = E[cls]
        if cls in ("Isobaric", "Isotension"):
            return C(a, temperature=300.0, seed=seed)
        if cls == "ForceBias":
            return C(a, delta=0.1, seed=seed)
        if cls == "AdaptiveForceBias":
            return C(a, 0.05, 0.2, seed=seed)
        if cls == "GrandCanonical":
            return C(a, E["Atoms"]("Cu"), seed=seed)
        return C(a, seed=seed)

    def real(self, case):
        E = env()
        qd = E["qdriver"]
        real_pcg = qd.PCG64
        fresh_calls = []

        class Fresh:
            def random_raw(self):
                fresh_calls.append(1)
                return SENTINEL

        def stub(seed=None):
            return Fresh() if seed is None else real_pcg(seed)

        out = {}
        qd.PCG64 = stub
        try:
            given = case["seed"]
            if case.get("as"):
                given = getattr(E["np"], case["as"].split(".")[1])(given)
            mc = self.construct(case["cls"], given)
            out["seed"] = int(common.get_seed(mc))
            out["is_int"] = isinstance(common.get_seed(mc), int) and not isinstance(common.get_seed(mc), bool)
            want = real_pcg(case["seed"] if case["seed"] is not None else SENTINEL).state
            out["generator_seeded_by_kept_seed"] = common.get_rng(mc).bit_generator.state == real_pcg(common.get_seed(mc)).state
            out["generator_seeded_by_given_seed"] = common.get_rng(mc).bit_generator.state == want
            d = mc.to_dict()
            out["saved_seed"] = int(d["kwargs"]["seed"])
            if hasattr(type(mc), "from_dict"):
                # the entropy source answers differently the second time: a restored seed must not come from it
                qd.PCG64 = lambda seed=None: (type("F2", (), {"random_raw": lambda self: SENTINEL + 1})()
                                              if seed is None else real_pcg(seed))
                mc2 = type(mc).from_dict(d)
                out["restored_seed"] = int(common.get_seed(mc2))
                out["restored_state_equal"] = common.get_rng(mc2).bit_generator.state == common.get_rng(mc).bit_generator.state
        finally:
            qd.PCG64 = real_pcg
        # a genuinely fresh seed (no stub): only "an int >= 0"
        if case["seed"] is None:
            m3 = self.construct(case["cls"], None)
            out["fresh_ok"] = isinstance(common.get_seed(m3), int) and common.get_seed(m3) >= 0
        return out

    def model_lines(self, case):
        s = seed_token(case["seed"])
        return [f"seed fixed {s} {SENTINEL}", f"seedrt fixed {s} {SENTINEL} {SENTINEL + 1}",
                f"seed raw {s} {SENTINEL}"]

    def model_obs(self, case, outs):
        o = {"seed": int(outs[0].split()[1])}
        if case["cls"] not in ("ForceBias", "AdaptiveForceBias"):
            o["restored_seed"] = int(outs[1].split()[1])
        return o

    def oracle(self, case, obs):
        if "exception" in obs:
            return [(f"seed:exception:{case['cls']}:{obs['exception']}", obs["message"] + obs.get("trace", "")[-500:])]
        out = []
        s = case["seed"]
        if s is not None:
            if obs["seed"] != s:
                sig = "seed:0-replaced" if s == 0 else f"seed:not-kept:{case['cls']}"
                out.append((sig, f"{case['cls']}(seed={s})._seed == {obs['seed']}"))
            if not obs["generator_seeded_by_given_seed"]:
                sig = "seed:0-replaced" if s == 0 else f"seed:generator-not-seeded:{case['cls']}"
                out.append((sig, f"{case['cls']}(seed={s}): the generator is not Generator(PCG64({s}))"))
            if obs.get("saved_seed") != obs["seed"]:
                out.append((f"seed:to_dict:{case['cls']}", f"to_dict()['kwargs']['seed'] == {obs.get('saved_seed')}"))
        else:
            if not obs.get("fresh_ok"):
                out.append((f"seed:none-not-int:{case['cls']}", str(obs)))
        if not obs["generator_seeded_by_kept_seed"]:
            out.append((f"seed:generator-differs-from-_seed:{case['cls']}", str(obs)))
        if "restored_seed" in obs:
            if obs["restored_seed"] != obs["seed"]:
                sig = "seed:0-replaced" if obs["seed"] == 0 else f"seed:round-trip:{case['cls']}"
                out.append((sig, f"{case['cls']}: from_dict(to_dict())._seed == {obs['restored_seed']} != {obs['seed']}"))
            if not obs["restored_state_equal"]:
                out.append((f"seed:round-trip-state:{case['cls']}", "generator state differs after from_dict(to_dict())"))
        return list(dict.fromkeys(out))

    def classify(self, case, obs):
        s = case["seed"]
        k = "none" if s is None else "zero" if s == 0 else ">=2^64" if s >= 2**64 else "special" if s in SPECIAL_SEEDS else "random"
        return f"{case['cls']}:{k}{':' + case['as'] if case.get('as') else ''}"


# --------------------------------------------------------------------------------------------- suite 2


class DoubleRun(common.Suite):
    name = "double-run"

    def cases(self, rng, tier):
        steps = 30 if tier == "quick" else 200
        nextra = 1 if tier == "quick" else 5
        k = 0
        for kind in KINDS:
            seeds = [0]
            for _ in range(nextra):
                seeds.append(SPECIAL_SEEDS[k % len(SPECIAL_SEEDS)] if k % 2 == 0 else rng.randrange(1, 2**64))
                k += 1
            for s in seeds:
                other = rng.randrange(1, 2**64)
                while other == s:
                    other = rng.randrange(1, 2**64)
                if tier == "quick" and s == 0:
                    other = None  # the empirical different-seeds comparison once per kind is enough in the quick tier
                calc = "auto" if tier == "quick" or kind in ("gc", "gcmol", "afb") or k % 2 else "pair"
                yield {"kind": kind, "seed": s, "steps": steps, "other_seed": other, "calc": calc, "preuse": k % 2 == 1 or s == 0,
                       "gA": [rng.randrange(2**32), rng.randrange(2**32)], "gB": [rng.randrange(2**32), rng.randrange(2**32)],
                       "pA": rng.randrange(2**32), "pB": rng.randrange(2**32)}

    def real(self, case):
        with GlobalsKept():
            orig = originals()
            calc = case.get("calc", "auto")
            a = one_run(case["kind"], case["seed"], case["steps"], case["gA"], case["pA"], orig, calc=calc)
            with Poison() as poison, ShiftedClock():
                b = one_run(case["kind"], case["seed"], case["steps"], case["gB"], case["pB"], orig, calc=calc,
                            preuse=bool(case.get("preuse")))
            viol, third = poison.classify()
            c = None
            if case.get("other_seed") is not None:
                c = one_run(case["kind"], case["other_seed"], min(case["steps"], 30), None, None, orig, calc=calc)
        out = {"diff": first_diff(a, b), "seeds": [a["seed"], b["seed"]], "global_calls": viol, "third_party": third,
               "nsteps": [a["step_count"], b["step_count"]],
               "consumed": a["rng_state"] != _initial_state(a["seed"]),
               "moved": len(set(a["pos"])) > 1 or len(set(a["cell"])) > 1 or len(set(a["natoms"])) > 1,
               "digest": a["final"], "log_bytes": len(a["log"]),
               "events": _event_kinds(a)}
        # different seeds (empirical): the first 30 steps under `other_seed` against the first 30 under `seed`
        out["other_identical"] = c is not None and all(
            a[k][:30] == c[k][:30] for k in ("pos", "cell", "numbers", "momenta", "history"))
        if out["diff"]:
            k0 = out["diff"][0]
            nm = k0.split("@")[0]
            i = int(k0.split("@step")[1]) - 1 if "@step" in k0 else None
            pick = (lambda r: r[nm][i] if i is not None and i < len(r[nm]) else _short(r[nm]))
            out["detail"] = {"observable": k0, "runA": pick(a), "runB": pick(b)}
        return out

    def oracle(self, case, obs):
        kind = case["kind"]
        if "exception" in obs:
            return [(f"double-run:exception:{kind}:{obs['exception']}", obs["message"] + obs.get("trace", "")[-700:])]
        out = []
        if obs["diff"]:
            if case["seed"] == 0 and (obs["seeds"][0] != 0 or obs["seeds"][1] != 0):
                out.append(("seed:0-replaced",
                            f"two {kind} simulations built with seed=0 ran with seeds {obs['seeds']} and differ in {obs['diff']}"))
            else:
                first = obs["diff"][0].split("@")[0]
                out.append((f"double-run:{kind}:{first}",
                            f"seed {case['seed']}, {case['steps']} steps: runs differ in {obs['diff']}; first: "
                            f"{str(obs.get('detail'))[:400]}"))
        for v in obs["global_calls"]:
            out.append((v, f"{kind}: a global generator was called from quansino"))
        if obs["other_identical"] and obs["consumed"] and obs["moved"]:
            out.append((f"seed-ignored:{kind}", f"seeds {case['seed']} and {case['other_seed']} give bit-identical 30-step trajectories"))
        return out

    def classify(self, case, obs):
        if "exception" in obs:
            return "exception"
        if not obs.get("consumed"):
            return None
        s = case["seed"]
        return f"{case['kind']}:{'seed0' if s == 0 else 'big' if s >= 2**63 else 'seed'}:{obs['events']}:{'reused-components' if case.get('preuse') else 'fresh'}"


def _initial_state(seed):
    from numpy.random import PCG64

    st = PCG64(seed).state
    return f"{st['bit_generator']}:{st['state']['state']}:{st['state']['inc']}:{st['has_uint32']}:{st['uinteger']}"


def _event_kinds(a):
    vs = {v for h in a["history"] for _, v in h}
    s = "".join(c for c, v in (("T", True), ("F", False), ("N", None)) if v in vs)
    if len(set(a["natoms"])) > 1:
        s += "+exch"
    if len(set(a["cell"])) > 1:
        s += "+cell"
    return s or "fb"


def _short(x):
    if isinstance(x, list):
        return x[:3]
    if isinstance(x, str):
        return x[:200]
    return x


# --------------------------------------------------------------------------------------------- suite 3


class StreamIsolation(common.Suite):
    name = "stream-isolation"

    def cases(self, rng, tier):
        steps = 15 if tier == "quick" else 60
        for kind in KINDS:
            for s in ([rng.randrange(2**64)] if tier == "quick" else [0, rng.randrange(2**64)]):
                yield {"kind": kind, "seed": s, "steps": steps, "g": [rng.randrange(2**32), rng.randrange(2**32)],
                       "p": rng.randrange(2**32)}

    def real(self, case):
        with GlobalsKept():
            orig = originals()
            r1 = one_run(case["kind"], case["seed"], case["steps"], None, None, orig, wrap_rng=True)
            r2 = one_run(case["kind"], case["seed"], case["steps"], case["g"], case["p"], orig, wrap_rng=True)
            plain = one_run(case["kind"], case["seed"], case["steps"], None, None, orig)
        l1, l2 = r1.pop("reclog"), r2.pop("reclog")
        n = next((i for i, (x, y) in enumerate(zip(l1, l2)) if x != y), None)
        if n is None and len(l1) != len(l2):
            n = min(len(l1), len(l2))
        methods = sorted({e[0] for e in l1})
        return {"ncalls": [len(l1), len(l2)], "first_log_diff": n,
                "log_diff": None if n is None else [l1[n:n + 1], l2[n:n + 1]],
                "methods": methods, "wrapped_vs_wrapped": first_diff(r1, r2), "wrapped_vs_plain": first_diff(r1, plain)}

    def oracle(self, case, obs):
        kind = case["kind"]
        if "exception" in obs:
            return [(f"stream:exception:{kind}:{obs['exception']}", obs["message"] + obs.get("trace", "")[-700:])]
        out = []
        if obs["first_log_diff"] is not None:
            out.append((f"stream:call-sequence:{kind}", f"generator call {obs['first_log_diff']} differs: {obs['log_diff']}"))
        if obs["wrapped_vs_wrapped"] and case["seed"] != 0:
            out.append((f"double-run:{kind}:{obs['wrapped_vs_wrapped'][0].split('@')[0]}", str(obs["wrapped_vs_wrapped"])))
        if obs["wrapped_vs_plain"] and case["seed"] != 0:
            # some random value did not come through mc._rng / context.rng (a second generator inside quansino)
            out.append((f"stream:bypass:{kind}", f"run with the recording generator differs from the plain run: {obs['wrapped_vs_plain']}"))
        if case["seed"] == 0 and (obs["wrapped_vs_wrapped"] or obs["wrapped_vs_plain"]):
            out.append(("seed:0-replaced", f"{kind}: seed=0 runs differ"))
        return out

    def classify(self, case, obs):
        if "exception" in obs or not obs["ncalls"][0]:
            return None
        return f"{case['kind']}:{'+'.join(obs['methods'])}"


# --------------------------------------------------------------------------------------------- suite 4


class RunRNG(machine.ScriptedRNG):
    """the scripted generator of the M-machine plus what `yield_moves` asks for"""

    def choice(self, a, size=None, replace=True, p=None):
        import numpy as np

        if size is not None:
            if int(size) == 0:  # placement of forced moves when there is none: nothing is drawn
                return np.array([], dtype=int)
            raise machine.ScriptError("choice(size>0)")
        a = np.asarray(a)
        d = self._pop()
        self.log.append(("choice", len(a), d))
        return a[d % len(a)]


def run_case_ok(case):
    """leave out the tables that sit on recorded C03 findings (exchange next to another labelled move in a plain composite)"""
    for e in case["table"]:
        t = e["tree"]
        if t[0] == "P":
            ks = [case["objs"][r]["kind"] for r in t[1]]
            if "exch" in ks and sum(k in ("exch", "disp") for k in ks) >= 2:
                return False
    return True


class RunModel(common.Suite):
    name = "run-model"
    ensembles = ["canonical", "hamiltonian", "isobaric", "grand", "grand", "canonical"]

    def cases(self, rng, tier):
        n = 120 if tier == "quick" else 3000
        i = 0
        while i < n:
            ens = self.ensembles[i % len(self.ensembles)]
            case = machine.gen_case(rng, ens, tier, max_trials=1)
            if not run_case_ok(case):
                continue
            i += 1
            case["trials"] = []
            steps = rng.randint(1, 6) if tier == "quick" else rng.randint(1, 14)
            has_cell = any(o["kind"] == "cell" for o in case["objs"])
            nops = 14 * steps if has_cell else 8 * steps
            if has_cell:  # valid both as scale factors and as displacement vectors; keep the integer cell small
                ops = [[rng.choice([1, 1, 2]) if j < 5 else 1 for _ in range(3)] for j in range(nops)]
            else:
                ops = [[rng.randint(-3, 3) for _ in range(3)] for _ in range(nops)]
            case["run"] = {"thr": rng.choice([500, 500, 300, 800, 0, 1000]), "steps": steps,
                           "draws": [rng.randrange(1000) for _ in range(rng.choice([0, 3, 12 * steps, 12 * steps]))],
                           # an exhausted script hands out (0,0,0): fine as a displacement, not as a scale factor
                           "ops": ops if (has_cell or rng.random() < 0.9) else ops[:2],
                           "checks": [rng.random() < 0.75 for _ in range(rng.choice([0, 6 * steps]))]}
            yield case

    def real(self, case):
        import warnings

        from quansino.mc.criteria import BaseCriteria

        run = case["run"]
        sim = machine.Sim(case)
        rng_ = RunRNG()
        sim.rng = rng_
        common.set_rng(sim.mc, rng_)
        sim.mc.context.rng = rng_
        del sim.mc.yield_moves  # the real scheduler again
        sim.mc.moves.pop("_tracker", None)  # machine.py's notification probe is not part of the modelled table
        thr = run["thr"]

        class Threshold(BaseCriteria):
            def evaluate(self, context):
                context.atoms.get_potential_energy()
                return bool(round(context.rng.random() * 1000) < thr)

        for ms in sim.mc.moves.values():
            ms.criteria = Threshold()
        rng_.draws = list(run["draws"])
        sim.streams.ops = [list(v) for v in run["ops"]]
        sim.streams.checks = [bool(c) for c in run["checks"]]
        snaps, outcomes = [], []
        out = {"snapshots": snaps, "outcomes": outcomes}
        try:
            with warnings.catch_warnings():
                warnings.simplefilter("ignore")
                for st in sim.mc.irun(run["steps"]):
                    for _ in st:
                        pass
                    (name, verdict), = sim.mc.move_history
                    o = {True: "T", False: "F", None: "N"}[verdict]
                    outcomes.append(o)
                    snaps.append(f"{name},{sim.snapshot(o)}")
        except Exception as ex:  # noqa: BLE001  (recorded; judged by compare)
            import traceback

            out["exception"] = type(ex).__name__
            out["message"] = str(ex)[:300]
            out["trace"] = traceback.format_exc()[-900:]
        out["ndraws"] = len(rng_.log)
        out["nops"] = sim.streams.nops
        return out

    def model_lines(self, case):
        run = case["run"]
        line = machine.model_line(case)
        assert line.startswith("mm ") and line.endswith(" R")
        ops = machine.s_ints(x for v in run["ops"] for x in v)
        return ["seedrun" + line[2:-2] + f" S {run['thr']} {run['steps']} {machine.s_ints(run['draws'])} {ops} "
                f"{machine.s_ints(int(c) for c in run['checks'])}"]

    def model_obs(self, case, outs):
        return {"snapshots": outs[0].split(" | ") if outs[0] else []}

    def compare(self, case, real, model):
        rs, ms = real.get("snapshots", []), model["snapshots"]
        if "exception" in real:
            return [f"real code raised {real['exception']} at step {len(rs) + 1}: {real['message']}"]
        for k, (r, m) in enumerate(zip(rs, ms)):
            if r != m:
                return [f"step {k + 1}: real  {r}", f"step {k + 1}: model {m}"]
        if len(rs) != len(ms):
            return [f"{len(rs)} real steps vs {len(ms)} model steps"]
        return []

    def oracle(self, case, obs):
        # the property on the real code, without the model: the same script twice gives the same run
        again = self.real(case)
        if again.get("snapshots") != obs.get("snapshots") or again.get("exception") != obs.get("exception"):
            return [(f"scripted-run:not-reproducible:{case['ens']}", "the same script gave two different runs")]
        return []

    def classify(self, case, obs):
        if "exception" in obs or not obs.get("ndraws"):
            return None
        return case["ens"] + ":" + "".join(sorted(set(obs["outcomes"])))


# --------------------------------------------------------------------------------------------- suite 5


def static_scan():
    """every place in src/quansino that could reach a generator other than the driver's"""
    from pathlib import Path

    root = Path(quansino_src())
    hits = []
    for p in sorted(root.rglob("*.py")):
        rel = str(p.relative_to(root))
        try:
            tree = ast.parse(p.read_text())
        except SyntaxError as ex:
            hits.append({"file": rel, "line": 0, "what": f"syntax-error:{ex}", "type_only": False})
            continue
        type_only_lines = set()
        np_names = {"np", "numpy"}
        for node in ast.walk(tree):
            if isinstance(node, ast.Import):
                for al in node.names:
                    if al.name == "numpy":
                        np_names.add(al.asname or "numpy")
        for node in ast.walk(tree):
            if isinstance(node, ast.If):
                t = node.test
                nm = t.id if isinstance(t, ast.Name) else t.attr if isinstance(t, ast.Attribute) else None
                if nm == "TYPE_CHECKING":
                    for sub in node.body:
                        for x in ast.walk(sub):
                            if hasattr(x, "lineno"):
                                type_only_lines.add(x.lineno)
        for node in ast.walk(tree):
            what = None
            if isinstance(node, ast.Import):
                for al in node.names:
                    if al.name == "random" or al.name.startswith(("numpy.random", "random.")):
                        what = f"import {al.name}"
            elif isinstance(node, ast.ImportFrom):
                if node.module and (node.module == "random" or node.module.startswith("numpy.random")):
                    what = f"from {node.module} import {','.join(a.name for a in node.names)}"
                elif node.module == "numpy" and any(a.name == "random" for a in node.names):
                    what = "from numpy import random"
            elif isinstance(node, ast.Attribute):
                v = node.value
                if node.attr == "random" and isinstance(v, ast.Name) and v.id in np_names:
                    what = f"{v.id}.random"
                elif node.attr in ("default_rng", "RandomState", "SeedSequence"):
                    what = node.attr
            elif isinstance(node, ast.Call):
                f = node.func
                nm = f.id if isinstance(f, ast.Name) else f.attr if isinstance(f, ast.Attribute) else None
                if nm in ("default_rng", "PCG64", "RandomState", "MT19937", "Philox", "SFC64", "SeedSequence") or (
                        nm in ("RNG",) and rel == "mc/driver.py"):
                    what = f"{nm}("
            if what:
                hits.append({"file": rel, "line": node.lineno, "what": what, "type_only": node.lineno in type_only_lines})
    return hits


_SCAN: dict = {}


class StaticScan(common.Suite):
    name = "static-scan"

    def cases(self, rng, tier):
        yield {"scan": "src/quansino"}

    def real(self, case):
        hits = static_scan()
        outside = [h for h in hits if h["file"] != "mc/driver.py" and not h["type_only"]]
        _SCAN.update({"hits": hits, "outside_driver": outside})
        return {"driver": [f"{h['line']}:{h['what']}" for h in hits if h["file"] == "mc/driver.py"],
                "type_only": [f"{h['file']}:{h['line']}:{h['what']}" for h in hits if h["type_only"]],
                "outside_driver": [f"{h['file']}:{h['line']}:{h['what']}" for h in outside]}

    def oracle(self, case, obs):
        return []  # supporting search: gating only together with a differing double run or a recorded global call

    def classify(self, case, obs):
        return f"outside-driver={len(obs.get('outside_driver', []))}"


def extra_coverage(res):
    return {"static_scan": {"other_sources_outside_mc/driver.py": _SCAN.get("outside_driver"),
                            "all_hits": [f"{h['file']}:{h['line']}:{h['what']}" + (" (TYPE_CHECKING)" if h["type_only"] else "")
                                         for h in _SCAN.get("hits", [])]},
            "not_verified": "different seeds => different PCG64 streams (numpy SeedSequence/PCG64 not modelled); "
                            "empirical check only (seed-ignored:<kind>)"}


def _fresh_job(args):
    """runs in a NEW interpreter (spawn): optionally build and step one simulation of every other kind first, then the run"""
    kind, seed, steps, decoys = args
    import io as _io

    if decoys:
        for other in KINDS:
            o = build(other, (seed + 1) % 2**63, logfile=_io.StringIO(), sibling=(other == kind))
            o.run(2 if other == kind else 1)
    r = one_run(kind, seed, steps)
    return {k: r.get(k) for k in OBSERVABLES}


class FreshProcess(common.Suite):
    """several simulations in one process: a run in a pristine interpreter against the same run in an interpreter where
    one simulation of every other driver class was built and stepped first (class-level dictionaries mutated by another
    class's constructor, module-level caches, shared default objects). Oracle only."""

    name = "fresh-process"

    def cases(self, rng, tier):
        self._results = None
        self._cases = [{"kind": k, "seed": rng.randrange(2**63), "steps": 8 if tier == "quick" else 30} for k in KINDS]
        return list(self._cases)

    def _compute(self):
        import multiprocessing as mp
        from concurrent.futures import ProcessPoolExecutor

        jobs = [(c["kind"], c["seed"], c["steps"], d) for c in self._cases for d in (False, True)]
        with ProcessPoolExecutor(max_workers=min(8, len(jobs)), mp_context=mp.get_context("spawn"), max_tasks_per_child=1) as ex:
            res = list(ex.map(_fresh_job, jobs))
        self._results = {(j[0], j[3]): r for j, r in zip(jobs, res)}

    def real(self, case):
        if self._results is None:
            self._compute()
        a, b = self._results[(case["kind"], False)], self._results[(case["kind"], True)]
        diff = [k for k in OBSERVABLES if a.get(k) != b.get(k)]
        return {"differs": diff, "steps": case["steps"], "history": a.get("history")}

    def oracle(self, case, obs):
        if "exception" in obs:
            return [(f"fresh-process:{case['kind']}:exception:{obs['exception']}", obs.get("message", ""))]
        if obs["differs"]:
            return [(f"fresh-process:{case['kind']}:other-simulations-change-the-trajectory",
                     f"seed {case['seed']}: {obs['differs']} differ between a pristine interpreter and one in which "
                     f"simulations of the other driver classes were built first")]
        return []

    def classify(self, case, obs):
        return case["kind"]


def suites(tier):
    return [SeedKept(), DoubleRun(), StreamIsolation(), RunModel(), StaticScan(), FreshProcess()]
