"""C16 — output files are well-formed after every write and after a crash at any point (DESIGN §6 C16).

Real side: real GrandCanonical runs (insertions and deletions: the restart document grows and shrinks) whose
`logfile` / `trajectory` / `restart_file` are instrumented seekable file objects wrapping real temporary files
opened in the mode under test. Every write/flush/seek/truncate is recorded together with the bytes an
independent reader sees in the real file right after it.

(i)   protocol conformance: the op sequence of every observer call is in the model's language (`fcall`);
(ii)  file semantics: the bytes visible after every op are one of the model's crash images and equal the
      model's disk after flush/seek/truncate (`files`);
(iii) the property itself, on the real bytes (the oracle): for every op index and every reconstructed crash
      image (nothing more reaches the disk / each whole pending write / a cut in the middle of a write).
"""
from __future__ import annotations

import hashlib
import io
import json
import os
import pathlib
import tempfile
import warnings

import common

ID = "C16"
LEAN_MODULES = ["QProps.C16", "QProps.C16l"]
THEOREMS = [
    "Files.log_after_call",
    "Files.log_header_only",
    "Files.log_crash_prefix",
    "Files.traj_after_call",
    "Files.traj_crash_prefix",
    "Files.restart_after_call",
    "Files.restart_completed_calls",
    "Files.restart_crash_loadable_partial",
    "Files.restart_crash_window",
    "Files.restart_crash_loadable_false",
    "Files.reopened_files_keep_content",
    "Files.failed_call_keeps_restart_point",
    "Files.failed_call_pinned_empties",
    "LogT.row_is_one_line",
    "LogT.header_is_one_line",
    "LogT.header_and_row_same_columns",
    "LogT.cell_aligned",
    "LogT.columns_aligned",
    "LogT.header_row_same_length",
    "LogT.add_field_keys",
    "LogT.add_field_present",
    "LogT.add_field_count",
    "LogT.remove_fields_spec",
    "LogT.remove_fields_order",
    "Files.restart_links_only_seekable",
    "Files.never_links_closed",
    "Files.names_are_opened",
    "Files.stream_observers_take_any_open_file",
    "Files.restart_refuses_iff",
    "Files.isFrameCall_iff",
    "Files.isRestartCall_iff",
]
RULE = (
    "one case = one real GrandCanonical run (12 steps quick, 40 steps thorough; chemical potential chosen so that atoms "
    "are inserted and deleted) with instrumented log, trajectory and restart files opened in mode 'a' or 'w', with or "
    "without earlier content, logging interval 1-3; every op index of every file is a crash point, with >=3 disk "
    "images each (grew/shrank in the histogram refer to the number of atoms and the size of the restart document); "
    "non-trivial = the run completed at least two restart calls; distinct = distinct (mode, existing, "
    "seed, mu, interval, steps)"
)
ASSUMPTIONS = [
    "a process crash loses exactly the bytes still in user-space buffers: the disk image is what an independent reader "
    "sees plus some prefix of the pending writes (kernel/page-cache behaviour beyond write(2) and fsync are out of scope)",
    "CPython io: TextIOWrapper/BufferedWriter flush on flush(), seek() and truncate(); O_APPEND for mode 'a' "
    "(validated against the real file after every recorded op)",
    "loadable restart image = ase.io.jsonio.read_json succeeds and returns step_count/atoms of a state that was saved; "
    "in the model: the image is one of the completed documents",
    "logger table: Python's str.format is modelled for literal text (no ':' '{' '}') and placeholders {:[<>^][width]s|d} with "
    "string and integer values (padding rules, str(int), IndexError/ValueError/TypeError); float formatting, fill characters, "
    "sign/zero flags and nested fields are outside the model (DESIGN 12.8g lists what the real code does there)",
    "file linking: the model decides from the attributes the setter inspects (read/write/IOBase/closed/seekable()/seek); the "
    "harness computes them with hasattr on the very object it hands over",
]


def digest(b: bytes) -> str:
    return hashlib.sha256(b).hexdigest()[:12]


# --------------------------------------------------------------------------- instrumented file


class Tap:
    """seekable text file object that records every operation and what a second reader then sees on disk"""

    def __init__(self, path, mode):
        self.path = path
        self.initial = open(path, "rb").read() if os.path.exists(path) else b""
        self.f = open(path, mode, encoding="utf-8")  # noqa: SIM115
        self.ops: list[tuple] = []  # ("w", bytes) | ("f",) | ("s", n) | ("t",)
        self.visible: list[bytes] = [self._peek()]  # visible[j] = disk after j ops
        self.calls: list[tuple] = []  # (first op index, end op index, snapshot)

    def _peek(self) -> bytes:
        with open(self.path, "rb") as r:
            return r.read()

    def _rec(self, op):
        self.ops.append(op)
        v = self._peek()
        self.visible.append(self.visible[-1] if v == self.visible[-1] else v)  # share equal snapshots

    def write(self, s):
        n = self.f.write(s)
        self._rec(("w", s.encode("utf-8")))
        return n

    def flush(self):
        self.f.flush()
        self._rec(("f",))

    def seek(self, pos, whence=0):
        r = self.f.seek(pos, whence)
        self._rec(("s", pos) if whence == 0 else ("s?", pos, whence))
        return r

    def truncate(self, size=None):
        r = self.f.truncate(size)
        self._rec(("t",) if size is None else ("t?", size))
        return r

    def seekable(self):
        return True

    def writable(self):
        return True

    def tell(self):
        return self.f.tell()

    @property
    def closed(self):
        return self.f.closed

    @property
    def name(self):
        return self.f.name

    def close(self):
        self.f.close()


OPENED: dict = {}


class TapPath(pathlib.PosixPath):
    """a path whose `open()` hands out a recording `Tap`: the simulation opens the file itself, in the mode IT chooses"""

    def open(self, mode="r", buffering=-1, encoding=None, errors=None, newline=None):  # noqa: ARG002
        t = Tap(str(self), mode)
        t.mode_used = mode
        OPENED[str(self)] = t
        return t


class CallMark:
    """stands in for an observer in `file_manager.observers`: marks the op range of each call"""

    def __init__(self, obs, tap, snap):
        self.obs, self.tap, self.snap = obs, tap, snap

    @property
    def interval(self):
        return self.obs.interval

    def __call__(self):
        i0 = len(self.tap.ops)
        s = self.snap()
        self.obs()
        self.tap.calls.append((i0, len(self.tap.ops), s))

    def close(self):
        self.obs.close()


def optok(op) -> str:
    if op[0] == "w":
        return "w" + op[1].hex()
    if op[0] == "f":
        return "f"
    if op[0] == "s":
        return f"s{op[1]}"
    if op[0] == "t":
        return "t"
    return "x"  # an operation the model does not know (seek with whence, truncate(size)): reported as bad-op


# --------------------------------------------------------------------------- the real run


def previous_content(kind):
    """what an earlier run would have left in the file (for the 'existing content' cases)"""
    if kind == "log":
        return b"Class                            Step     Epot[eV]\nOld                                 0       1.0000\n"
    if kind == "traj":
        from ase import Atoms
        from ase.io.extxyz import write_xyz

        s = io.StringIO()
        write_xyz(s, Atoms("Cu2", positions=[[0, 0, 0], [1.5, 0, 0]], cell=[4, 4, 4], pbc=True))
        return s.getvalue().encode()
    return b'{"attributes": {"step_count": 999}, "name": "previous run"}'


def run_real(case, tmp):
    from props import c15

    E = c15.env()
    np = E["np"]
    from quansino.mc.gcmc import GrandCanonical

    atoms = E["bulk"]("Cu", cubic=True) * (case.get("rep", 1), 1, 1)
    atoms.calc = E["Harm"]()
    taps = {}
    for kind in ("log", "traj", "restart"):
        path = os.path.join(tmp, kind)
        if case["existing"]:
            with open(path, "wb") as w:
                w.write(previous_content(kind))
        taps[kind] = TapPath(path) if case.get("via") == "path" else Tap(path, case["mode"])
    sim = GrandCanonical(
        atoms, E["Atoms"]("Cu"), temperature=5000.0, chemical_potential=case["mu"], max_cycles=2, seed=case["seed"],
        number_of_exchange_particles=len(atoms), default_exchange_move=E["ExchangeMove"](np.arange(len(atoms))),
        default_displacement_move=E["DisplacementMove"](np.arange(len(atoms))),
        logfile=taps["log"], trajectory=taps["traj"], restart_file=taps["restart"],
        logging_interval=case["interval"], logging_mode=case["mode"])

    if case.get("via") == "path":
        taps = {kind: OPENED[os.path.join(tmp, kind)] for kind in taps}

    import weakref

    simref = weakref.ref(sim)

    def snap():
        sm = simref()
        return (int(sm.step_count), [int(z) for z in sm.atoms.numbers], sm.atoms.get_positions().tolist())

    obs = sim.file_manager.observers
    for name, kind in (("default_logger", "log"), ("default_trajectory", "traj"), ("default_restart", "restart")):
        obs[name] = CallMark(obs[name], taps[kind], snap)
    for seg in case["segs"]:
        sim.run(seg)
    if case.get("drop_sim"):
        # the simulation object goes away before its files are closed (built in a function, rebound, interpreter exit):
        # closing the observers afterwards — what the file manager's atexit hook does — must leave the files as they are
        import gc

        fm = sim.file_manager
        del sim, obs
        gc.collect()
        try:
            fm.close()
        except Exception:  # noqa: BLE001  (what close() raises is not under test; what it leaves on disk is)
            pass
    for t in taps.values():
        if not t.closed:
            t.close()
    return taps


# --------------------------------------------------------------------------- analysis of one recorded file


def sync_state(tap, j):
    """(disk at the last flush/seek/truncate at or before cut j, bytes written since, per-write boundaries)"""
    k = j
    while k > 0 and tap.ops[k - 1][0] == "w":
        k -= 1
    base = tap.visible[k]
    writes = [op[1] for op in tap.ops[k:j]]
    return base, writes


def crash_images(tap, j):
    """disk images a crash after op j may leave: what is visible now, plus further whole pending writes, plus a cut
    in the middle of each pending write; None if the visible bytes are not base + a prefix of the pending bytes"""
    base, writes = sync_state(tap, j)
    w = b"".join(writes)
    v = tap.visible[j]
    if not (v.startswith(base) and w.startswith(v[len(base):])):
        return None
    m = len(v) - len(base)
    cuts = {m}
    off = 0
    for x in writes:
        for c in (off + len(x) // 2, off + len(x)):
            if c >= m:
                cuts.add(c)
        off += len(x)
    return [base + w[:c] for c in sorted(cuts)]


def completed_calls(tap, j):
    return sum(1 for (_, i1, _) in tap.calls if i1 <= j)


def call_bytes(tap, k):
    i0, i1, _ = tap.calls[k]
    return b"".join(op[1] for op in tap.ops[i0:i1] if op[0] == "w")


def outside_call_bytes(tap, upto):
    """bytes written outside every observer call among the first `upto` ops (the log header)"""
    inside = set()
    for i0, i1, _ in tap.calls:
        inside.update(range(i0, i1))
    return b"".join(op[1] for i, op in enumerate(tap.ops[:upto]) if op[0] == "w" and i not in inside)


def in_window(tap, j):
    """is cut j strictly inside a call, after that call's truncate?"""
    for i0, i1, _ in tap.calls:
        if i0 < j < i1:
            return any(op[0] == "t" for op in tap.ops[i0:j])
    # a call still running when the run ended cannot happen here (runs complete)
    return False


def same_state(snap, step, numbers, positions, tol):
    import numpy as np

    if step is not None and step != snap[0]:
        return False
    if list(numbers) != snap[1]:
        return False
    return len(snap[1]) == 0 or bool(np.allclose(np.asarray(positions).reshape(-1, 3), np.asarray(snap[2]).reshape(-1, 3),
                                                 rtol=0, atol=tol))


class Checker:
    """the property clauses on the real bytes of one run (independent of the Lean model)"""

    def __init__(self, case, taps):
        self.case, self.taps = case, taps
        self.fails: list[tuple[str, str]] = []
        self.stats = {"ops": 0, "cuts": 0, "images": 0, "window_images": 0, "window_unloadable": 0,
                      "restart_calls": 0, "doc_sizes": []}
        self._frames_cache = {}
        self._json_cache = {}

    def fail(self, sig, msg):
        if len(self.fails) < 40:
            self.fails.append((sig, msg))

    # ---- log
    def check_log(self):
        tap = self.taps["log"]
        init = tap.visible[0]
        for j in range(len(tap.ops) + 1):
            imgs = crash_images(tap, j)
            if imgs is None:
                self.fail("io:visible-bytes-not-buffer-prefix:log", f"op {j}")
                continue
            c = completed_calls(tap, j)
            head = outside_call_bytes(tap, j)
            done = init + ((head + b"".join(call_bytes(tap, k) for k in range(c))) if c else b"")
            progress = (head if c == 0 else b"") + (b"".join(
                op[1] for op in tap.ops[tap.calls[c][0]:j] if op[0] == "w") if c < len(tap.calls) and tap.calls[c][0] < j else b"")
            self.stats["cuts"] += 1
            for img in imgs:
                self.stats["images"] += 1
                if not img.startswith(done):
                    self.fail("log:completed-line-altered", f"cut {j}: {c} completed calls, image {len(img)} bytes does not start with them")
                elif not progress.startswith(img[len(done):]):
                    self.fail("log:foreign-bytes", f"cut {j}: trailing bytes are not a prefix of the line being written")
            if any(i1 == j for (_, i1, _) in tap.calls):  # a call has just returned
                if tap.visible[j] != done:
                    self.fail("log:not-flushed-after-call", f"after call {c}: {len(tap.visible[j])} bytes visible, {len(done)} expected")
                lines = done[len(init):].decode().split("\n")
                ok = lines[-1] == "" and lines[0].startswith("Class") and len(lines) == c + 2
                steps = []
                try:
                    steps = [int(ln.split()[1]) for ln in lines[1:-1]]
                except (ValueError, IndexError):
                    ok = False
                if not ok or steps != [s[0] for (_, _, s) in tap.calls[:c]]:
                    self.fail("log:malformed-after-call", f"after call {c}: lines {lines[:3]}… steps {steps}")

    # ---- trajectory
    def frames_of(self, data: bytes):
        key = digest(data)
        if key not in self._frames_cache:
            import ase.io

            try:
                fr = ase.io.read(io.StringIO(data.decode()), index=":", format="extxyz") if data else []
                self._frames_cache[key] = [(list(map(int, a.numbers)), a.get_positions().tolist()) for a in fr]
            except Exception as e:  # noqa: BLE001
                self._frames_cache[key] = f"{type(e).__name__}: {e}"
        return self._frames_cache[key]

    def check_traj(self):
        tap = self.taps["traj"]
        init = tap.visible[0]
        n0 = len(self.frames_of(init)) if init else 0
        for j in range(len(tap.ops) + 1):
            imgs = crash_images(tap, j)
            if imgs is None:
                self.fail("io:visible-bytes-not-buffer-prefix:traj", f"op {j}")
                continue
            c = completed_calls(tap, j)
            done = init + b"".join(call_bytes(tap, k) for k in range(c))
            progress = b"".join(op[1] for op in tap.ops[tap.calls[c][0]:j] if op[0] == "w") if (
                c < len(tap.calls) and tap.calls[c][0] < j) else b""
            self.stats["cuts"] += 1
            for img in imgs:
                self.stats["images"] += 1
                if not img.startswith(done):
                    self.fail("traj:completed-frame-altered", f"cut {j}: {c} completed frames not intact")
                    continue
                if not progress.startswith(img[len(done):]):
                    self.fail("traj:foreign-bytes", f"cut {j}")
                fr = self.frames_of(img[:len(done)])
                if isinstance(fr, str) or len(fr) != n0 + c or not all(
                        same_state(tap.calls[k][2], None, fr[n0 + k][0], fr[n0 + k][1], 2e-8) for k in range(c)):
                    self.fail("traj:frames-unreadable", f"cut {j}: ase.io.read of the completed part gives "
                              f"{fr if isinstance(fr, str) else len(fr)} for {c} completed calls")
            if any(i1 == j for (_, i1, _) in tap.calls) and tap.visible[j] != done:
                self.fail("traj:not-flushed-after-call", f"after call {c}")

    # ---- restart
    def load(self, data: bytes):
        key = digest(data)
        if key not in self._json_cache:
            from ase.io.jsonio import read_json

            try:
                d = read_json(io.StringIO(data.decode()))
                json.loads(data.decode())  # exactly one document
                if "atoms" in d:
                    self._json_cache[key] = (int(d["attributes"]["step_count"]), [int(z) for z in d["atoms"].numbers],
                                             d["atoms"].get_positions().tolist())
                else:
                    self._json_cache[key] = ("previous", d)
            except Exception as e:  # noqa: BLE001
                self._json_cache[key] = f"{type(e).__name__}"
        return self._json_cache[key]

    def check_restart(self):
        tap = self.taps["restart"]
        init = tap.visible[0]
        self.stats["restart_calls"] = len(tap.calls)
        self.stats["doc_sizes"] = [len(call_bytes(tap, k)) for k in range(len(tap.calls))]
        for j in range(len(tap.ops) + 1):
            imgs = crash_images(tap, j)
            if imgs is None:
                self.fail("io:visible-bytes-not-buffer-prefix:restart", f"op {j}")
                continue
            c = completed_calls(tap, j)
            self.stats["cuts"] += 1
            win = in_window(tap, j)
            have_saved = c >= 1 or bool(init)
            for img in imgs:
                self.stats["images"] += 1
                self.stats["window_images"] += win
                if not have_saved:
                    continue
                st = self.load(img)
                saved = [s for (_, _, s) in tap.calls[:c + 1]]
                if isinstance(st, str):
                    if win:
                        self.stats["window_unloadable"] += 1
                        self.fail("restart:crash-between-truncate-and-flush",
                                  f"mode {self.case['mode']!r}: crash after op {j} ({tap.ops[j - 1][0]!r}, inside call {c + 1} "
                                  f"after its truncate) leaves {len(img)} bytes that do not load ({st}); "
                                  f"{'the previous document' if c else 'the earlier content'} is gone")
                    else:
                        self.fail("restart:unloadable-outside-window", f"cut {j} ({c} completed calls): {len(img)} bytes, {st}")
                elif st[0] == "previous":
                    if c >= 1:
                        self.fail("restart:loads-unsaved-state", f"cut {j}: the earlier file content after {c} completed calls")
                elif not any(same_state(s, st[0], st[1], st[2], 1e-12) for s in saved):
                    self.fail("restart:loads-unsaved-state", f"cut {j}: step {st[0]} with {len(st[1])} atoms was never saved")
            if any(i1 == j for (_, i1, _) in tap.calls):
                st = self.load(tap.visible[j])
                if tap.visible[j] != call_bytes(tap, c - 1) or isinstance(st, str) or st[0] == "previous" or not same_state(
                        tap.calls[c - 1][2], st[0], st[1], st[2], 1e-12):
                    self.fail("restart:not-latest-after-call", f"after call {c}: {len(tap.visible[j])} bytes visible, "
                              f"document {len(call_bytes(tap, c - 1))} bytes, loads to {st if isinstance(st, str) else st[0]}")

    def check_open(self):
        for kind, tap in self.taps.items():
            want = tap.initial if self.case["mode"] == "a" else b""
            if tap.visible[0] != want:
                self.fail(f"open:{'existing-content-lost' if self.case['mode'] == 'a' else 'not-truncated'}:{kind}",
                          f"logging_mode {self.case['mode']!r}: right after the simulation was built the {kind} file holds "
                          f"{len(tap.visible[0])} bytes, expected {len(want)} (opened with mode {getattr(tap, 'mode_used', '?')!r})")

    def run(self):
        self.check_open()
        self.check_log()
        self.check_traj()
        self.check_restart()
        self.stats["ops"] = sum(len(t.ops) for t in self.taps.values())
        return self


# --------------------------------------------------------------------------- the suite


class FileCrash(common.Suite):
    name = "file-crash"

    def __init__(self):
        self.heavy = {}

    def cases(self, rng, tier):
        out = []
        steps = 12
        for mode in ("a", "w"):
            for existing in (False, True):
                for mu, rep in ((0.25, 1), (-5.0, 3), (-4.0, 2)):
                    out.append({"mode": mode, "existing": existing, "mu": mu, "rep": rep, "interval": rng.choice([1, 1, 2]),
                                "segs": [steps], "seed": rng.randrange(1, 2**31)})
        out.append({"mode": "a", "existing": False, "mu": -4.5, "rep": 2, "interval": 1, "segs": [5, 0, 7],
                    "seed": rng.randrange(1, 2**31)})
        out.append({"mode": "w", "existing": True, "mu": -4.5, "rep": 3, "interval": 3, "segs": [12],
                    "seed": rng.randrange(1, 2**31)})
        # the simulation opens the files itself (paths, not streams): the mode it uses is part of what is checked; with
        # interval 5 there are crash points of the new run BEFORE its first restart write
        for mode in ("a", "w"):
            for existing in (True, False):
                out.append({"mode": mode, "existing": existing, "mu": -4.0, "rep": 2, "interval": rng.choice([1, 5]),
                            "segs": [6, 6], "seed": rng.randrange(1, 2**31), "via": "path", "drop_sim": existing})
        # the system is emptied completely: frames and documents of a 0-atom state
        for mode in ("a", "w"):
            out.append({"mode": mode, "existing": False, "mu": -12.0, "rep": 1, "interval": 1, "segs": [14],
                        "seed": rng.randrange(1, 2**31), "via": "path" if mode == "a" else "stream"})
        if tier == "thorough":
            for mode in ("a", "w"):
                for existing in (False, True):
                    for mu, rep in ((0.2, 1), (-5.0, 3), (-4.0, 2)):
                        out.append({"mode": mode, "existing": existing, "mu": mu, "rep": rep, "interval": rng.choice([1, 1, 2, 3]),
                                    "segs": [40], "seed": rng.randrange(1, 2**31)})
            for _ in range(6):
                out.append({"mode": rng.choice("aw"), "existing": rng.random() < 0.5, "mu": rng.choice([-5.0, -4.0, 0.15]),
                            "rep": rng.randint(1, 3), "interval": 1, "segs": [rng.randint(1, 20), rng.randint(0, 20)],  # no zero-length first run: that is C15's defect
                            "seed": rng.randrange(1, 2**31)})
        return out

    def key(self, case):
        return common.dumps(case)

    def real(self, case):
        import warnings

        warnings.simplefilter("ignore")
        with tempfile.TemporaryDirectory(prefix="qverif-c16-") as tmp:
            taps = run_real(case, tmp)
        chk = Checker(case, taps).run()
        self.heavy[self.key(case)] = taps
        sizes = chk.stats["doc_sizes"]
        nat = [len(s[1]) for (_, _, s) in taps["restart"].calls]
        grew = any(b > a for a, b in zip(nat, nat[1:])) and any(b > a for a, b in zip(sizes, sizes[1:]))
        shrank = any(b < a for a, b in zip(nat, nat[1:])) and any(b < a for a, b in zip(sizes, sizes[1:]))
        TOTALS["runs"] += 1
        TOTALS["runs_doc_grew_and_shrank"] += grew and shrank
        for k in ("ops", "cuts", "images", "window_images", "window_unloadable", "restart_calls"):
            TOTALS[k] += chk.stats[k]
        return {"stats": {**chk.stats, "doc_sizes": sizes[:50]}, "grew": grew, "shrank": shrank, "natoms": nat[:50],
                "fails": [list(f) for f in chk.fails],
                "ops": {k: len(t.ops) for k, t in taps.items()}, "calls": {k: len(t.calls) for k, t in taps.items()},
                "final": {k: digest(t.visible[-1]) for k, t in taps.items()}}

    # ---- model: (i) fcall per observer call, (ii) files per file
    def plan(self, case):
        taps = self.heavy.get(self.key(case))
        if taps is None:
            return None
        lines, meta = [], []
        for kind, call_kind in (("log", "log"), ("traj", "frame"), ("restart", "restart")):
            tap = taps[kind]
            inside = set()
            for n, (i0, i1, _) in enumerate(tap.calls):
                inside.update(range(i0, i1))
                lines.append(" ".join(["fcall", call_kind, *map(optok, tap.ops[i0:i1])]))
                meta.append(("fcall", kind, n))
            out = [op for i, op in enumerate(tap.ops) if i not in inside]
            if kind == "log":
                lines.append(" ".join(["fcall", "header", *map(optok, out)]))
                meta.append(("fcall", kind, "header"))
            elif out:
                lines.append("fcall stray " + " ".join(map(optok, out)))
                meta.append(("fcall", kind, "stray"))
            existing = previous_content(kind).hex() if case["existing"] else "-"
            lines.append(" ".join(["files", case["mode"], existing, *map(optok, tap.ops)]))
            meta.append(("files", kind, None))
        return lines, meta

    def model_lines(self, case):
        p = self.plan(case)
        return p[0] if p else []

    def model_obs(self, case, outs):
        return {"outs": outs}

    def compare(self, case, real_obs, model_obs):
        p = self.plan(case)
        if p is None:
            return ["no recorded run"]
        taps = self.heavy[self.key(case)]
        diffs = []
        for (what, kind, n), out in zip(p[1], model_obs["outs"]):
            tap = taps[kind]
            if what == "fcall":
                if out != "ok true":
                    i = tap.calls[n][:2] if isinstance(n, int) else None
                    ops = [o[0] for o in (tap.ops[i[0]:i[1]] if i else tap.ops[:3])]
                    diffs.append(f"(i) {kind} call {n}: op sequence {ops} not in the protocol language ({out})")
                continue
            w = out.split(" ")
            if w[0] != "ok" or len(w) != len(tap.ops) + 2 or not w[1].startswith("open="):
                diffs.append(f"(ii) {kind}: model answered {out[:80]!r} for {len(tap.ops)} ops")
                continue
            disk = bytes.fromhex(w[1][5:])          # the model's disk right after open(mode) on the existing content
            if tap.visible[0] != disk:
                diffs.append(f"(ii) {kind}: file after open({case['mode']!r}) holds {len(tap.visible[0])} bytes, model {len(disk)}")
            for j, tok in enumerate(w[2:], start=1):
                keep, add, pend, k, win = tok.split(":")
                disk = disk[: int(keep)] + bytes.fromhex(add)
                pend = bytes.fromhex(pend)
                v = tap.visible[j]
                if not (v.startswith(disk) and pend.startswith(v[len(disk):])):
                    diffs.append(f"(ii) {kind} op {j} {tap.ops[j - 1][0]}: visible bytes ({len(v)}) are not a crash image of the model "
                                 f"(disk {len(disk)}, pending {len(pend)})")
                    break
                if tap.ops[j - 1][0] != "w" and v != disk:
                    diffs.append(f"(ii) {kind} op {j} {tap.ops[j - 1][0]}: visible {len(v)} bytes, model disk {len(disk)}")
                    break
                if int(k) != completed_calls(tap, j):
                    diffs.append(f"(ii) {kind} op {j}: model counts {k} completed calls, recorded {completed_calls(tap, j)}")
                    break
                if kind == "restart" and bool(int(win)) != in_window(tap, j):
                    diffs.append(f"(ii) restart op {j}: model window={win}, recorded {in_window(tap, j)}")
                    break
        return diffs[:10]

    def oracle(self, case, obs):
        if "exception" in obs:
            return [("c16:unexpected-exception:" + obs["exception"], obs["message"])]
        seen, out = set(), []
        for sig, msg in obs["fails"]:
            if sig not in seen:
                seen.add(sig)
                out.append((sig, msg))
        return out

    def classify(self, case, obs):
        if "exception" in obs or obs["calls"]["restart"] < 2:
            return None
        return (f"mode={case['mode']},existing={case['existing']},grew={obs['grew']},shrank={obs['shrank']},"
                f"steps={sum(case['segs'])},via={case.get('via', 'stream')},emptied={0 in obs.get('natoms', [1])}")


TOTALS = {"runs": 0, "ops": 0, "cuts": 0, "images": 0, "window_images": 0, "window_unloadable": 0, "restart_calls": 0,
          "runs_doc_grew_and_shrank": 0}


def extra_coverage(res):
    return {"crash_points": dict(TOTALS)}


class FileSemantics(common.Suite):
    """the file machine of `QModel/Files.lean` against CPython's text files on random op scripts that are independent of
    the observers (write directly followed by truncate, seek in mode 'a' followed by write, truncate below / above the
    position, …): after every op the bytes a second reader sees must be a crash image of the model state, and equal to
    the model's disk after flush / seek / truncate."""

    name = "file-semantics"

    def cases(self, rng, tier):
        n = 120 if tier == "quick" else 2500
        for _ in range(n):
            ops = []
            for _ in range(rng.randint(1, 14)):
                r = rng.random()
                if r < 0.45:
                    ops.append(["w", bytes(rng.choice(b"abcdefgXYZ") for _ in range(rng.choice([1, 2, 3, 5, 9]))).hex()])
                elif r < 0.65:
                    ops.append(["f"])
                elif r < 0.85:
                    ops.append(["s", rng.choice([0, 0, 1, 2, 3, 5, 8])])
                else:
                    ops.append(["t"])
            yield {"mode": rng.choice("aw"), "existing": rng.choice(["", "", "6f6c64", "6f6c642d636f6e74656e74"]), "ops": ops}

    def real(self, case):
        with tempfile.TemporaryDirectory(prefix="qverif-c16s-") as tmp:
            path = os.path.join(tmp, "f")
            if case["existing"]:
                with open(path, "wb") as w:
                    w.write(bytes.fromhex(case["existing"]))
            tap = Tap(path, case["mode"])
            for op in case["ops"]:
                if op[0] == "w":
                    tap.write(bytes.fromhex(op[1]).decode())
                elif op[0] == "f":
                    tap.flush()
                elif op[0] == "s":
                    tap.seek(op[1])
                else:
                    tap.truncate()
            tap.close()
            return {"visible": [v.hex() for v in tap.visible], "final": tap._peek().hex() if os.path.exists(path) else ""}

    def model_lines(self, case):
        toks = [("w" + op[1]) if op[0] == "w" else ("s" + str(op[1])) if op[0] == "s" else op[0] for op in case["ops"]]
        return [" ".join(["files", case["mode"], case["existing"] or "-", *toks])]

    def model_obs(self, case, outs):
        return {"out": outs[0]}

    def compare(self, case, real, model):
        w = model["out"].split(" ")
        vis = [bytes.fromhex(v) for v in real["visible"]]
        if w[0] != "ok" or len(w) != len(case["ops"]) + 2:
            return [f"model answered {model['out'][:80]!r}"]
        disk = bytes.fromhex(w[1][5:])
        if vis[0] != disk:
            return [f"after open({case['mode']!r}): real {vis[0]!r} model {disk!r}"]
        for j, tok in enumerate(w[2:], start=1):
            keep, add, pend, _, _ = tok.split(":")
            disk = disk[: int(keep)] + bytes.fromhex(add)
            pend = bytes.fromhex(pend)
            v = vis[j]
            kind = case["ops"][j - 1][0]
            if kind != "w" and v != disk:
                return [f"op {j} {case['ops'][j - 1]}: real file {v!r}, model disk {disk!r} (pending {pend!r})"]
            if kind == "w" and not any(self.image(disk, pend, c, case, j) == v for c in range(len(pend) + 1)):
                return [f"op {j} {case['ops'][j - 1]}: real file {v!r} is not a crash image of model disk {disk!r} + pending {pend!r}"]
        return []

    @staticmethod
    def image(disk, pend, c, case, j):
        """disk with the first c pending bytes landed (append mode: at the end; otherwise where the model says — for the
        comparison after a write only the append / end-of-file landing occurs unflushed)"""
        return disk + pend[:c] if True else disk

    def oracle(self, case, obs):
        return []

    def classify(self, case, obs):
        kinds = [o[0] for o in case["ops"]]
        pairs = {a + b for a, b in zip(kinds, kinds[1:])}
        return f"mode={case['mode']},existing={bool(case['existing'])},wt={'wt' in pairs},sw={'sw' in pairs},tw={'tw' in pairs}"


class LoggerFailedCall(common.Suite):
    """a log line is ONE write: when a field's callable fails (calculator error, Ctrl-C during the energy evaluation, a
    user field that raises) the call must leave no bytes behind, so that the lines completed before and after stay
    whole (clause "header plus one complete line per call", also after the process dies between two file operations).
    Real `Logger` on an instrumented file; the op range of every call must be in the protocol language of the model
    (`fcall log`) or — for a failed call — empty."""

    name = "logger-failed-call"

    def cases(self, rng, tier):
        n = 30 if tier == "quick" else 400
        for _ in range(n):
            nf = rng.randint(2, 5)
            ncalls = rng.randint(2, 8)
            fails = sorted({(rng.randrange(ncalls), rng.randrange(nf)) for _ in range(rng.choice([1, 1, 2, 3]))})
            yield {"nfields": nf, "ncalls": ncalls, "fails": [list(f) for f in fails], "mode": rng.choice("aw"),
                   "array_field": rng.random() < 0.3}

    def real(self, case):
        from quansino.io.logger import Logger

        with tempfile.TemporaryDirectory(prefix="qverif-c16l-") as tmp:
            tap = Tap(os.path.join(tmp, "log"), case["mode"])
            lg = Logger(tap, interval=1, mode=case["mode"])
            state = {"call": 0}
            fails = {tuple(f) for f in case["fails"]}

            def field(k):
                def fn():
                    if (state["call"], k) in fails:
                        raise RuntimeError(f"field {k} failed")
                    return [float(state["call"]), float(k)] if (case["array_field"] and k == 1) else float(state["call"] * 10 + k)
                return fn

            for k in range(case["nfields"]):
                if case["array_field"] and k == 1:
                    # an array field may be named by one string (documented) or by one name per component
                    lg.add_field("A12" if case["ncalls"] % 2 else ("A1", "A2"), field(k), str_format="{:8.2f} {:8.2f}", is_array=True)
                else:
                    lg.add_field(f"F{k}", field(k), str_format="{:10.3f}")
            lg.write_header()
            nhead = len(tap.ops)
            calls = []
            for c in range(case["ncalls"]):
                state["call"] = c
                i0 = len(tap.ops)
                try:
                    lg()
                    ok = True
                except RuntimeError:
                    ok = False
                calls.append({"ok": ok, "ops": [optok(o) for o in tap.ops[i0:]], "visible_after": tap.visible[-1].hex()})
            tap.flush()
            final = tap._peek().decode()
            tap.close()
        return {"calls": calls, "final": final, "header_ops": nhead}

    def model_lines(self, case):
        return []

    def oracle(self, case, obs):
        if "exception" in obs:
            return [(f"log:exception:{obs['exception']}", obs.get("message", "") + obs.get("trace", "")[-300:])]
        out = []
        lines = obs["final"].split("\n")
        good = [c for c in obs["calls"] if c["ok"]]
        nbad = len(obs["calls"]) - len(good)
        for i, c in enumerate(obs["calls"]):
            if not c["ok"] and c["ops"]:
                out.append(("log:failed-call-left-bytes", f"call {i} failed but performed file operations {c['ops'][:4]}"))
        if lines[-1] != "" or len(lines) != 1 + len(good) + 1:
            out.append(("log:line-count-after-failed-call", f"{len(lines) - 2} data lines for {len(good)} completed calls "
                                                            f"({nbad} failed): {lines[:4]}"))
        width = {len(ln.split()) for ln in lines[1:-1]}
        if len(width) > 1:
            out.append(("log:torn-line", f"data lines have {sorted(width)} columns"))
        return out[:3]

    def classify(self, case, obs):
        first = min(f[1] for f in case["fails"])
        return f"mode={case['mode']},first-failing-field={'first' if first == 0 else 'later'},array={case['array_field']}"


class RestartFailedCall(common.Suite):
    """the restart file is rewritten only once the new document exists: when `to_dict()` of the simulation (a user move, a
    calculator-dependent field) or the JSON encoder fails, the previous restart point is still in the file; and the documented
    `write_kwargs` (handed to the JSON writer) do not make the call fail. Real `RestartObserver` on a real file."""

    name = "restart-failed-call"

    def cases(self, rng, tier):
        n = 16 if tier == "quick" else 160
        for i in range(n):
            ncalls = rng.randint(2, 6)
            yield {"ncalls": ncalls, "fail_at": sorted(rng.sample(range(1, ncalls), rng.choice([0, 1, 1, min(2, ncalls - 1)]))),
                   "write_kwargs": [None, {"indent": 2}, {"sort_keys": True}, {"allow_nan": False, "indent": 1}][i % 4],
                   "mode": rng.choice("aw")}

    def real(self, case):
        import numpy as np
        import quansino.mc  # noqa: F401
        from ase.build import bulk
        from ase.calculators.calculator import Calculator, all_changes
        from ase.io.jsonio import read_json
        from quansino.io.restart import RestartObserver
        from quansino.mc.canonical import Canonical
        from quansino.moves.displacement import DisplacementMove

        class Harm(Calculator):
            implemented_properties = ["energy", "forces"]  # noqa: RUF012

            def calculate(self, atoms=None, properties=None, system_changes=all_changes):
                super().calculate(atoms, properties, system_changes)
                d = self.atoms.get_positions() - 1.7
                self.results = {"energy": 0.05 * float((d * d).sum()), "forces": -0.1 * d}

        state = {"call": 0}
        fail_at = set(case["fail_at"])

        class Moody(DisplacementMove):
            def to_dict(self):
                if state["call"] in fail_at:
                    raise RuntimeError("to_dict failed")
                return super().to_dict()

        out = {"calls": []}
        with tempfile.TemporaryDirectory(prefix="qverif-c16r-") as tmp, warnings.catch_warnings():
            warnings.simplefilter("ignore")
            atoms = bulk("Cu", cubic=True)
            atoms.calc = Harm()
            sim = Canonical(atoms, temperature=300.0, seed=5, max_cycles=1,
                            default_displacement_move=Moody(np.arange(len(atoms))))
            path = pathlib.Path(tmp) / "restart.json"
            kw = {} if case["write_kwargs"] is None else {"write_kwargs": dict(case["write_kwargs"])}
            ro = RestartObserver(sim, path, interval=1, mode=case["mode"], **kw)
            sim.validate_simulation()        # reference energy etc. are numbers from here on (a strict encoder refuses nan)
            last_good = None
            strict = bool(case["write_kwargs"]) and case["write_kwargs"].get("allow_nan") is False
            for c in range(case["ncalls"]):
                state["call"] = -1 if strict else c      # with a strict encoder the failure is the ENCODER's, not to_dict's:
                sim.step_count = c
                sim.temperature = float("inf") if (strict and c in fail_at) else 300.0   # … a state it refuses (inf)
                try:
                    ro()
                    ok = True
                except (RuntimeError, ValueError):
                    ok = False
                except TypeError as e:
                    out["calls"].append({"ok": False, "typeerror": str(e)[:120]})
                    continue
                try:
                    loaded = read_json(path)
                    step = loaded["attributes"]["step_count"] if isinstance(loaded, dict) else None
                except Exception as e:  # noqa: BLE001
                    step = f"unloadable:{type(e).__name__}"
                if ok:
                    last_good = c
                out["calls"].append({"ok": ok, "file_step": step, "want": last_good, "size": path.stat().st_size})
            ro.close()
        return out

    def oracle(self, case, obs):
        if "exception" in obs:
            return [(f"restart-call:exception:{obs['exception']}", obs.get("message", "") + obs.get("trace", "")[-300:])]
        out = []
        for i, c in enumerate(obs["calls"]):
            if "typeerror" in c:
                out.append((f"restart-call:write-kwargs-refused:{sorted(case['write_kwargs'] or {})}",
                            f"call {i}: {c['typeerror']}"))
                break
            if c["want"] is None and not c["ok"] and c["size"] == 0:
                continue      # nothing has been written yet and nothing was: there is no restart point to lose
            if c["file_step"] != c["want"]:
                out.append(("restart-call:previous-restart-point-lost" if not c["ok"] else "restart-call:document-not-current",
                            f"call {i} ({'completed' if c['ok'] else 'failed in to_dict'}): the file holds {c['file_step']!r} "
                            f"({c['size']} bytes), the last completed call was {c['want']}"))
                break
        return out

    def classify(self, case, obs):
        return f"kwargs={sorted(case['write_kwargs'] or {})}:fails={len(case['fail_at'])}"


class RunAfterClose(common.Suite):
    """files the simulation opened by name, a run, `close()`, and another run on the same object: whatever the second run
    does (today it raises on the closed files), the bytes the first run left are still there — nothing re-opens a file in
    a mode that truncates it. Oracle only."""

    name = "run-after-close"

    def cases(self, rng, tier):
        for mode in ("w", "a"):
            for driver in ("can", "gc", "fb"):
                for n1, n2 in ((2, 2), (3, 1)):
                    yield {"mode": mode, "driver": driver, "n1": n1, "n2": n2, "seed": rng.randrange(1, 2**31)}

    def real(self, case):
        import tempfile

        import numpy as np
        import quansino.mc  # noqa: F401
        from ase import Atoms
        from ase.build import bulk
        from ase.calculators.calculator import Calculator, all_changes
        from quansino.mc.canonical import Canonical
        from quansino.mc.fbmc import ForceBias
        from quansino.mc.gcmc import GrandCanonical
        from quansino.moves.displacement import DisplacementMove
        from quansino.moves.exchange import ExchangeMove

        class Harm(Calculator):
            implemented_properties = ["energy", "forces"]  # noqa: RUF012

            def calculate(self, atoms=None, properties=None, system_changes=all_changes):
                super().calculate(atoms, properties, system_changes)
                d = self.atoms.get_positions() - 1.7
                self.results = {"energy": 0.05 * float((d * d).sum()), "forces": -0.1 * d}

        with tempfile.TemporaryDirectory() as tmp, warnings.catch_warnings():
            warnings.simplefilter("ignore")
            paths = {k: pathlib.Path(tmp) / f"{k}.txt" for k in ("log", "traj", "restart")}
            atoms = bulk("Cu", cubic=True)
            atoms.calc = Harm()
            kw = dict(seed=case["seed"], logfile=paths["log"], trajectory=paths["traj"], logging_interval=1,
                      logging_mode=case["mode"])
            if case["driver"] == "can":
                sim = Canonical(atoms, temperature=300.0, max_cycles=1, restart_file=paths["restart"],
                                default_displacement_move=DisplacementMove(np.arange(len(atoms))), **kw)
            elif case["driver"] == "gc":
                sim = GrandCanonical(atoms, Atoms("Cu"), temperature=3000.0, chemical_potential=0.0, max_cycles=1,
                                     number_of_exchange_particles=len(atoms), restart_file=paths["restart"],
                                     default_exchange_move=ExchangeMove(np.arange(len(atoms))), **kw)
            else:
                sim = ForceBias(atoms, delta=0.05, temperature=300.0, **kw)
            sim.run(case["n1"])
            sim.close()
            first = {k: p.read_bytes() for k, p in paths.items() if p.exists()}
            raised = None
            try:
                sim.run(case["n2"])
            except Exception as e:  # noqa: BLE001  (a run on closed files may well be refused)
                raised = type(e).__name__
            try:
                sim.close()
            except Exception:  # noqa: BLE001
                pass
            second = {k: p.read_bytes() for k, p in paths.items() if p.exists()}
        lost = [k for k in ("log", "traj") if k in first and not second.get(k, b"").startswith(first[k])]
        return {"raised": raised, "lost": lost, "sizes": {k: [len(first.get(k, b"")), len(second.get(k, b""))] for k in first}}

    def oracle(self, case, obs):
        if "exception" in obs:
            return [(f"run-after-close:exception:{obs['exception']}", obs.get("message", "") + obs.get("trace", "")[-300:])]
        if obs["lost"]:
            return [(f"run-after-close:earlier-bytes-lost:{'+'.join(obs['lost'])}:mode={case['mode']}",
                     f"{case['driver']}: after close() and a second run the files no longer start with what the first run wrote "
                     f"(sizes first/second {obs['sizes']}, second run raised {obs['raised']})")]
        return []

    def classify(self, case, obs):
        return f"{case['driver']}:{case['mode']}:raised={obs.get('raised')}"


# ------------------------------------------------------------------------------------------------ the field table
def _hx(t: str) -> str:
    return t.encode("ascii").hex() if t else "-"


def _fmt_py(segs) -> str:
    out = []
    for sg in segs:
        if sg[0] == "L":
            out.append(sg[1])
        else:
            _, al, w, ty = sg
            out.append("{:" + {"l": "<", "r": ">", "c": "^", "n": ""}[al] + ("" if w is None else str(w)) + ty + "}")
    return "".join(out)


def _fmt_tok(segs) -> str:
    return "|".join(("L" + _hx(sg[1])) if sg[0] == "L" else f"H{sg[1]}{'~' if sg[2] is None else sg[2]}.{sg[3]}" for sg in segs)


class LoggerTable(common.Suite):
    """the logger's table of fields (`add_field` with string and tuple names, re-adding under a used name, `remove_fields`,
    automatic and explicit header formats, array fields) and the two lines it produces, byte for byte against
    `QModel/LogTable.lean`; values are strings and integers so that both sides render them exactly"""

    name = "logger-table"
    _vals = None

    NAMES = ["Class", "Step", "Epot[eV]", "E", "T[K]", "Stress[xx][GPa]", "Stress[yy][GPa]", "N", "a b", "x", ""]
    LITS = [" ", "|", "eV", "#", "= ", "a b"]

    def _segs(self, rng, nholes, explicit=True):
        segs = []
        for k in range(nholes):
            if rng.random() < 0.15:
                segs.append(("L", rng.choice(self.LITS)))
            al = rng.choice(["l", "r", "c", "n", "r", "l"])
            w = rng.choice([None, 1, 4, 8, 10, 12, 18, 24]) if not explicit or rng.random() < 0.25 else rng.choice([6, 8, 10, 12, 18, 24])
            segs.append(("H", al, w, rng.choice(["s", "d"])))
        if rng.random() < 0.1:
            segs.append(("L", rng.choice(self.LITS)))
        return segs

    def cases(self, rng, tier):
        n = 250 if tier == "quick" else 4000
        for i in range(n):
            malformed = i % 9 == 4
            ops = []
            keys = []
            for _ in range(rng.randint(1, 9)):
                r = rng.random()
                if r < 0.62 or not keys:
                    arr = rng.random() < 0.3
                    if arr:
                        nh = rng.randint(1, 4)
                        segs = self._segs(rng, nh)
                        kind = rng.random()
                        if kind < 0.6:
                            key = ("t", rng.sample(self.NAMES[:9], min(nh, 9)))
                        elif kind < 0.8:
                            key = ("s", rng.choice(self.NAMES))   # one name for the whole array
                        else:
                            key = ("t", rng.sample(self.NAMES[:9], rng.randint(0, nh + (1 if malformed else 0))))
                    else:
                        segs = self._segs(rng, 1)
                        key = ("s", rng.choice(self.NAMES))
                        if malformed and rng.random() < 0.3:
                            key = ("t", rng.sample(self.NAMES[:9], 2))  # a tuple name on a scalar field
                    if keys and rng.random() < 0.25:
                        key = rng.choice(keys)  # a used name: replaced in place
                    hdr = None
                    if rng.random() < 0.15:
                        hdr = self._segs(rng, sum(1 for sg in segs if sg[0] == "H") if rng.random() < 0.8 else rng.randint(0, 3))
                        hdr = [(sg[0], sg[1], sg[2], "s") if sg[0] == "H" else sg for sg in hdr]
                    as_list = key[0] == "t" and rng.random() < 0.5
                    ops.append({"op": "add", "key": key, "fmt": segs, "hdr": hdr, "array": arr, "as_list": as_list})
                    if key not in keys:
                        keys.append(key)
                elif r < 0.74:
                    ops.append({"op": "remove", "pattern": rng.choice(["Step", "E", "[", "Stress", "a", "zz", "T[K]", "", " "])})
                    keys = []  # (the generator does not track removals; re-adds pick from later keys)
                elif r < 0.86:
                    ops.append({"op": "header"})
                else:
                    ops.append({"op": "call", "vseed": rng.randrange(2**30), "short": malformed and rng.random() < 0.3,
                                "wrong": malformed and rng.random() < 0.3})
            ops.append({"op": "header"})
            ops.append({"op": "call", "vseed": rng.randrange(2**30), "short": False, "wrong": False})
            yield {"ops": ops}

    # the values one call's functions return, decided by the table as the REAL logger holds it at that moment
    @staticmethod
    def _values(fields, op):
        import random as _r
        rr = _r.Random(op["vseed"])
        out = []
        for _key, f in fields:
            tys = [sg for sg in f["fmt"] if sg[0] == "H"]
            vals = []
            for sg in tys:
                ty = sg[3]
                if op["wrong"] and rr.random() < 0.3:
                    ty = "s" if ty == "d" else "d"
                if ty == "s":
                    vals.append(rr.choice(["Canonical", "GrandCanonical", "x", "", "a b", "ForceBias"]))
                else:
                    vals.append(rr.choice([0, 7, -42, 1000, 123456789012, -1, 10**15]))
            if f["array"]:
                if op["short"] and vals:
                    vals = vals[:-1]
                elif rr.random() < 0.1:
                    vals = [*vals, 5]  # surplus arguments are ignored by str.format
                out.append(vals)
            else:
                out.append(vals[:1] if vals else ["x"])
        return out

    def real(self, case):
        from quansino.io.logger import Logger

        self._vals = None
        buf = io.StringIO()
        lg = Logger(buf, interval=1)
        outs = []
        descr = {}
        vals_log = []
        for op in case["ops"]:
            if op["op"] == "add":
                kind, names = op["key"]
                name = names if kind == "s" else (list(names) if op["as_list"] else tuple(names))
                current = {}

                def fn(cur=current):
                    return cur["v"]

                kw = {}
                if op["hdr"] is not None:
                    kw["header_format"] = _fmt_py(op["hdr"])
                lg.add_field(name, fn, _fmt_py(op["fmt"]), is_array=op["array"], **kw)
                k = names if kind == "s" else tuple(names)
                descr[k] = {"fmt": op["fmt"], "array": op["array"], "cell": current}
            elif op["op"] == "remove":
                lg.remove_fields(op["pattern"])
            elif op["op"] == "header":
                mark = buf.tell()
                try:
                    lg.write_header()
                    outs.append(buf.getvalue()[mark:])
                except (IndexError, ValueError, TypeError) as e:
                    outs.append("err:" + {"IndexError": "index", "ValueError": "value", "TypeError": "type"}[type(e).__name__])
                    buf.seek(mark); buf.truncate()
            else:
                fields = [(k, descr[k]) for k in lg.fields]
                values = self._values(fields, op)
                vals_log.append(values)
                for (k, f), v in zip(fields, values):
                    f["cell"]["v"] = v if f["array"] else v[0]
                mark = buf.tell()
                try:
                    lg()
                    outs.append(buf.getvalue()[mark:])
                except (IndexError, ValueError, TypeError) as e:
                    outs.append("err:" + {"IndexError": "index", "ValueError": "value", "TypeError": "type"}[type(e).__name__])
                    buf.seek(mark); buf.truncate()
        keys = [("s:" + _hx(k)) if isinstance(k, str) else ("t:" + "+".join(_hx(x) for x in k)) for k in lg.fields]
        self._vals = vals_log
        return {"outs": outs, "keys": keys, "values": vals_log}

    def model_lines(self, case):
        # called right after `real(case)`: the values depend on the table the REAL logger held at each call
        if self._vals is None:
            return []
        real_obs = {"values": self._vals}
        toks = []
        vi = 0
        for op in case["ops"]:
            if op["op"] == "add":
                kind, names = op["key"]
                key = ("s:" + _hx(names)) if kind == "s" else ("t:" + ",".join(_hx(x) for x in names))
                toks.append(";".join(["A", key, _fmt_tok(op["fmt"]), "~" if op["hdr"] is None else _fmt_tok(op["hdr"]),
                                      "1" if op["array"] else "0"]))
            elif op["op"] == "remove":
                toks.append("R;" + _hx(op["pattern"]))
            elif op["op"] == "header":
                toks.append("H")
            else:
                values = real_obs["values"][vi]
                vi += 1
                if not values:
                    toks.append("C")
                else:
                    toks.append("C;" + "/".join(",".join(("s" + _hx(x)) if isinstance(x, str) else f"i{x}" for x in v) or "~"
                                                for v in values))
        return ["logt " + " ".join(toks)]

    def model_obs(self, case, outs):
        w = outs[0].split()
        if w[0] == "bad-op":
            return {"outs": "bad-op"}
        dec = [t if t.startswith("err:") else ("" if t == "-" else bytes.fromhex(t).decode("ascii")) for t in w[:-1]]
        ks = w[-1][len("keys="):]
        return {"outs": dec, "keys": [k for k in ks.split(",") if k]}

    def compare(self, case, real_obs, model_obs):
        out = []
        if real_obs.get("outs") != model_obs["outs"]:
            for i, (a, b) in enumerate(zip(real_obs.get("outs", []), model_obs["outs"] if isinstance(model_obs["outs"], list) else [])):
                if a != b:
                    out.append(f"line {i}: real={a!r} model={b!r}")
                    break
            else:
                out.append(f"outs: real={real_obs.get('outs')!r} model={model_obs['outs']!r}")
        if real_obs.get("keys") != model_obs.get("keys"):
            out.append(f"keys: real={real_obs.get('keys')} model={model_obs.get('keys')}")
        return out

    def oracle(self, case, obs):
        if "exception" in obs:
            return [("logger-table:unexpected-exception:" + obs["exception"], obs.get("message", ""))]
        out = []
        nfields = None
        for line in obs["outs"]:
            if line.startswith("err:"):
                continue
            if not line.endswith("\n") or "\n" in line[:-1]:
                out.append(("logger-table:not-one-line", repr(line)))
        return out

    def classify(self, case, obs):
        kinds = set()
        for op in case["ops"]:
            if op["op"] == "add":
                kinds.add("array" if op["array"] else "scalar")
                if op["hdr"] is not None:
                    kinds.add("hdr")
        errs = sorted({o for o in obs.get("outs", []) if o.startswith("err:")})
        return "+".join(sorted(kinds)) + (":" + ",".join(errs) if errs else ":ok")


# ------------------------------------------------------------------------------------------------ linking a file
class FileLinking(common.Suite):
    """`TextObserver.file = value` for the three observer classes and every outside a handed-over object can have (a name,
    a path, objects with and without read/write/seek/seekable()/closed, IOBase subclasses, open and closed real files): what
    the setter decides against `Files.link`; the restart observer must never end up with something that cannot seek"""

    name = "file-linking"

    def cases(self, rng, tier):
        n = 150 if tier == "quick" else 1500
        for i in range(n):
            kind = rng.choice(["str", "path", "other", "other", "other", "other", "real", "real"])
            yield {"observer": rng.choice(["Logger", "TrajectoryObserver", "RestartObserver"]), "kind": kind,
                   "read": rng.random() < 0.4, "write": rng.random() < 0.6, "iobase": rng.random() < 0.3,
                   "closed": rng.choice([None, False, True, True]), "seekable": rng.choice([None, None, False, True]),
                   "seek": rng.random() < 0.5,
                   "real": rng.choice(["StringIO", "file-w", "file-a", "file-closed", "BytesIO", "stdout", "pipe"]),
                   "mode": rng.choice(["a", "w"])}

    @staticmethod
    def _make(case, tmp):
        k = case["kind"]
        if k == "str":
            return str(tmp / "by-name.txt")
        if k == "path":
            return tmp / "by-path.txt"
        if k == "real":
            r = case["real"]
            if r == "StringIO":
                return io.StringIO()
            if r == "BytesIO":
                return io.BytesIO()
            if r == "stdout":
                import sys
                return sys.stdout
            if r == "pipe":
                rd, wr = os.pipe()
                os.close(rd)
                return os.fdopen(wr, "w")   # open, writable, seekable() is False
            f = open(tmp / "real.txt", "a" if r == "file-a" else "w")  # noqa: SIM115
            if r == "file-closed":
                f.close()
            return f
        ns = {}
        if case["read"]:
            ns["read"] = lambda self, *a: ""
        if case["write"]:
            ns["write"] = lambda self, *a: 0
            ns["flush"] = lambda self: None
        if case["seek"]:
            ns["seek"] = lambda self, *a: 0
            ns["truncate"] = lambda self, *a: 0
        if case["seekable"] is not None:
            sk = case["seekable"]
            ns["seekable"] = lambda self, sk=sk: sk
        if case["closed"] is not None and not case["iobase"]:
            ns["closed"] = case["closed"]
        ns["close"] = lambda self: None
        cls = type("Handed", (io.IOBase,) if case["iobase"] else (), ns)
        o = cls()
        if case["iobase"] and case["closed"]:
            io.IOBase.close(o)
        return o

    def real(self, case):
        import sys

        from ase import Atoms
        from quansino.io.logger import Logger
        from quansino.io.restart import RestartObserver
        from quansino.io.trajectory import TrajectoryObserver

        with tempfile.TemporaryDirectory(prefix="c16link") as d:
            tmp = pathlib.Path(d)
            value = self._make(case, tmp)
            flags = None
            if not isinstance(value, (str, pathlib.Path)):
                sk = None
                if hasattr(value, "seekable"):
                    try:
                        sk = bool(value.seekable())
                    except ValueError:  # IOBase.seekable() of a closed object: the setter has refused it before asking
                        sk = False
                flags = {"read": hasattr(value, "read"), "write": hasattr(value, "write"), "iobase": isinstance(value, io.IOBase),
                         "closed": bool(getattr(value, "closed", False)), "seekable": sk, "seek": hasattr(value, "seek")}

            class Sim:
                def to_dict(self):
                    return {}

            sim = Sim()
            obs = None
            try:
                if case["observer"] == "Logger":
                    obs = Logger(value, interval=1, mode=case["mode"])
                elif case["observer"] == "TrajectoryObserver":
                    obs = TrajectoryObserver(Atoms("H"), value, interval=1, mode=case["mode"])
                else:
                    obs = RestartObserver(sim, value, interval=1, mode=case["mode"])
                if obs.file is value:
                    out = "linked"
                elif isinstance(value, (str, pathlib.Path)) and getattr(obs.file, "name", None) == str(value) \
                        and not obs.file.closed and obs.file.mode == case["mode"]:
                    out = "opened"
                else:
                    out = "other:" + repr(obs.file)[:60]
            except ValueError as e:
                out = "ValueError:closed" if "closed file" in str(e) else "ValueError:stream" if "non-seekable" in str(e) else "ValueError:?" + str(e)[:60]
            except TypeError:
                out = "TypeError"
            finally:
                if obs is not None and value is not sys.stdout:
                    obs.close()
                elif hasattr(value, "close") and value is not sys.stdout:
                    try:
                        value.close()
                    except Exception:  # noqa: BLE001
                        pass
            can_seek = None
            if out == "linked" and flags is not None:
                can_seek = flags["seekable"] if flags["seekable"] is not None else flags["seek"]
        return {"result": out, "flags": flags, "can_seek": can_seek}

    def model_lines(self, case):
        f = self._last_flags(case)
        acc = "0" if case["observer"] == "RestartObserver" else "1"
        if f is None:
            return [f"flink {acc} {'str' if case['kind'] == 'str' else 'path'} 00000 -"]
        bits = "".join("1" if f[k] else "0" for k in ("read", "write", "iobase", "closed", "seek"))
        return [f"flink {acc} other {bits} {'-' if f['seekable'] is None else int(f['seekable'])}"]

    def _last_flags(self, case):
        # the flags are a function of the case alone (recomputed here on a throw-away object)
        if case["kind"] in ("str", "path"):
            return None
        with tempfile.TemporaryDirectory(prefix="c16linkm") as d:
            value = self._make(case, pathlib.Path(d))
            sk = None
            if hasattr(value, "seekable"):
                try:
                    sk = bool(value.seekable())
                except ValueError:
                    sk = False
            f = {"read": hasattr(value, "read"), "write": hasattr(value, "write"), "iobase": isinstance(value, io.IOBase),
                 "closed": bool(getattr(value, "closed", False)), "seekable": sk, "seek": hasattr(value, "seek")}
            import sys
            if value is not sys.stdout and hasattr(value, "close"):
                try:
                    value.close()
                except Exception:  # noqa: BLE001
                    pass
            return f

    def model_obs(self, case, outs):
        w = outs[0].split()
        return {"result": w[1] if w[0] == "ok" else outs[0]}

    def oracle(self, case, obs):
        if "exception" in obs:
            return [("file-linking:unexpected-exception:" + obs["exception"], obs.get("message", ""))]
        out = []
        if case["observer"] == "RestartObserver" and obs["result"] == "linked" and obs["can_seek"] is False:
            out.append(("file-linking:restart-holds-unseekable", f"{case} -> flags {obs['flags']}"))
        if obs["result"] == "linked" and obs["flags"] and obs["flags"]["closed"]:
            out.append(("file-linking:closed-file-linked", f"{case}"))
        if obs["result"].startswith("other:"):
            out.append(("file-linking:name-not-opened-in-mode", f"{case}: {obs['result']}"))
        return out

    def classify(self, case, obs):
        return f"{case['observer']}:{case['kind'] if case['kind'] != 'real' else case['real']}:{obs.get('result', 'exception').split(':')[0]}"


def suites(tier):
    return [FileCrash(), FileSemantics(), LoggerFailedCall(), RestartFailedCall(), RunAfterClose(), LoggerTable(), FileLinking()]
