"""C17 — combining moves and operations with + and * (DESIGN §6 C17)."""
from __future__ import annotations

import itertools

import common

ID = "C17"
LEAN_MODULES = ["QProps.C17"]
THEOREMS = [
    "Alg.flatten_faithful",
    "Alg.assoc_elems",
    "Alg.specialised_iff",
    "Alg.eval_ok_iff",
    "Alg.mul_nonpos_refused",
    "Alg.plain_call",
    "Alg.oeval_sound",
    "Alg.oeval_composite",
]
RULE = (
    "expression trees over real DisplacementMove/ExchangeMove/CellMove/HamiltonianDisplacementMove/user moves "
    "(and over operations) built with + and * n: exhaustive over all +-shapes with <=3 (quick) / <=4 (thorough) "
    "leaves, every kind assignment, optional * n on one node, plus random trees up to 30 leaves and a malformed "
    "stream of repeat counts; a case is non-trivial when it has at least one operator; distinct = distinct trees"
)
ASSUMPTIONS = [
    "Python identity of move objects is modelled by leaf numbers",
    "typing generic aliases of CompositeMove (cell/Hamiltonian/user moves) build plain CompositeMove objects",
]

KINDS = "DXCG"


def leaves_of(e):
    if e[0] == "L":
        return [e[1]]
    if e[0] == "A":
        return leaves_of(e[1]) + leaves_of(e[2])
    n = e[2]
    return leaves_of(e[1]) * max(int(n), 0) if isinstance(n, (int, bool)) else []


def wf(e):
    if e[0] == "L":
        return True
    if e[0] == "A":
        return wf(e[1]) and wf(e[2])
    return wf(e[1]) and isinstance(e[2], int) and e[2] >= 1


def to_tokens(e):
    if e[0] == "L":
        return ["L", str(e[1])]
    if e[0] == "A":
        return ["A", *to_tokens(e[1]), *to_tokens(e[2])]
    return ["M", str(int(e[2])), *to_tokens(e[1])]


def int_only(e):
    if e[0] == "L":
        return True
    if e[0] == "A":
        return int_only(e[1]) and int_only(e[2])
    return type(e[2]) in (int, bool) and int_only(e[1])


def shapes(k):
    """all binary +-trees with k leaves (leaf ids filled later)"""
    if k == 1:
        yield ("L", None)
        return
    for i in range(1, k):
        for a in shapes(i):
            for b in shapes(k - i):
                yield ("A", a, b)


def fill(shape, ids):
    it = iter(ids)

    def go(s):
        if s[0] == "L":
            return ("L", next(it))
        return ("A", go(s[1]), go(s[2]))

    return go(shape)


def nodes(e, path=()):
    yield path
    if e[0] == "A":
        yield from nodes(e[1], path + (1,))
        yield from nodes(e[2], path + (2,))
    elif e[0] == "M":
        yield from nodes(e[1], path + (1,))


def wrap_at(e, path, n):
    if not path:
        return ("M", e, n)
    l = list(e)
    l[path[0]] = wrap_at(e[path[0]], path[1:], n)
    return tuple(l)


def tojson(e):
    return list(tojson(x) if isinstance(x, tuple) else x for x in e)


def fromjson(e):
    return tuple(fromjson(x) if isinstance(x, list) else x for x in e)


def gen_trees(rng, tier, nkinds):
    kmax = 3 if tier == "quick" else 4
    out = []
    for k in range(1, kmax + 1):
        for sh in shapes(k):
            for kinds in itertools.product(range(nkinds), repeat=k):
                e = fill(sh, kinds)  # leaf id = index into the kinds string (one object per kind)
                out.append(e)
                for p in nodes(e):
                    out.append(wrap_at(e, p, 2))
                    out.append(wrap_at(e, p, 1))      # `x * 1` is a composite of one element, not `x` itself
    # random larger trees, with repeated objects and distinct objects of the same kind
    nrand = 300 if tier == "quick" else 6000
    for _ in range(nrand):
        k = rng.randint(2, 9)
        sh = rng.choice(list(itertools.islice(shapes(min(k, 7)), 0, 200)))
        nl = len(leaves_of(fill(sh, [0] * 50)))
        uniform = rng.random() < 0.5
        base = rng.randrange(nkinds)
        ids = [(base + nkinds * rng.randrange(2)) if uniform else rng.randrange(2 * nkinds) for _ in range(nl)]
        e = fill(sh, ids)
        for _ in range(rng.randint(0, 3)):
            p = rng.choice(list(nodes(e)))
            e = wrap_at(e, p, rng.choice([1, 1, 2, 2, 3, True]))
        if rng.random() < 0.15:  # malformed stream
            p = rng.choice(list(nodes(e)))
            e = wrap_at(e, p, rng.choice([0, -1, -3, 1.5, 2.0, "2", None, False]))
        if len(leaves_of(e)) <= 30:
            out.append(e)
    return out


class MoveAlgebra(common.Suite):
    name = "move-algebra"

    def setup(self):
        import numpy as np
        import quansino.mc  # noqa: F401  (import order: see C08)
        from quansino.moves.cell import CellMove
        from quansino.moves.core import BaseMove
        from quansino.moves.displacement import DisplacementMove, HamiltonianDisplacementMove
        from quansino.moves.exchange import ExchangeMove

        class UserMove(BaseMove):
            def __init__(self):
                super().__init__(operation=object(), apply_constraints=True)

            def __call__(self, context):
                return True

        mk = {
            "D": lambda: DisplacementMove(np.arange(3)),
            "X": lambda: ExchangeMove(np.arange(3)),
            "C": lambda: CellMove(),
            "G": lambda: UserMove(),
            "H": lambda: HamiltonianDisplacementMove(),
        }
        # leaf id i has kind KINDS[i % 4]; ids >= 4 are second objects of the same kinds; G alternates user/Hamiltonian
        self.kinds = "".join(KINDS[i % 4] for i in range(8))
        self.objs = [mk["H" if (i == 7) else self.kinds[i]]() for i in range(8)]
        # the second object of each kind is configured away from every constructor default: the kind of a composite is a
        # matter of the operands' classes, never of their settings
        from quansino.operations.displacement import Box

        for i, o in enumerate(self.objs):
            if i < 4:
                continue
            k = self.kinds[i]
            if k == "X":
                self.objs[i] = ExchangeMove(np.array([0, 0, 1, -1]), operation=Box(0.3), bias_towards_insert=0.8,
                                            apply_constraints=False)
                self.objs[i].default_label = 7
            elif k == "D":
                self.objs[i] = DisplacementMove(np.array([2, 2, -1, 5]), operation=Box(0.2), apply_constraints=False)
                self.objs[i].default_label = 0
            elif k == "C":
                self.objs[i] = CellMove(scale_atoms=False, apply_constraints=False)
            self.objs[i].max_attempts = 3

    def cases(self, rng, tier):
        for e in gen_trees(rng, tier, 4):
            yield {"expr": tojson(e)}

    @staticmethod
    def snap(v):
        """identity list of a composite's elements (None for an elementary object)"""
        el = getattr(v, "moves", None)
        if el is None:
            el = getattr(v, "operations", None)
        return None if el is None else [id(x) for x in el]

    def evaluate(self, e):
        """evaluates the expression on the real objects; every operand is USED AGAIN after the operation (the same sum is
        formed twice) and must be what it was: `a + b` builds a new composite, it does not extend `a`"""
        if e[0] == "L":
            return self.objs[e[1]]
        if e[0] == "A":
            a, b = self.evaluate(e[1]), self.evaluate(e[2])
            sa, sb = self.snap(a), self.snap(b)
            r = a + b
            sr = self.snap(r)
            r2 = a + b
            if self.snap(a) != sa or self.snap(b) != sb:
                self.mutated.append("an operand of + changed")
            if self.snap(r) != sr or self.snap(r2) != sr:
                self.mutated.append("the same sum formed twice differs")
            return r
        a = self.evaluate(e[1])
        sa = self.snap(a)
        n = e[2]
        if type(n) is int and n >= 1 and n % 2 == 1 and getattr(self, "numpy_counts", True):
            import numpy as np

            n = np.int64(n)        # a positive integer that comes out of a numpy computation (np.sum(mask), labels.max() + 1)
        r = a * n
        if self.snap(a) != sa:
            self.mutated.append("the operand of * changed")
        # `x *= n` is `x = x * n`: the name is rebound to a NEW composite; whoever else holds the old object (an alias, a
        # move's `.operation`, the list handed to a constructor) still has what it had
        b = a
        b *= n
        if self.snap(a) != sa or (sa is not None and b is a):
            self.mutated.append("the operand of *= changed")
        if self.snap(b) != self.snap(r):
            self.mutated.append("x *= n differs from x * n")
        return r

    def real(self, case):
        if not hasattr(self, "objs"):
            self.setup()
        e = fromjson(case["expr"])
        self.mutated = []
        try:
            v = self.evaluate(e)
        except (ValueError, TypeError) as ex:
            return {"result": "err", "exc": type(ex).__name__}
        if any(v is o for o in self.objs):
            return {"result": "base", "elems": [[i for i, o in enumerate(self.objs) if o is v][0]]}
        ids = []
        for m in v.moves:
            ids.append([i for i, o in enumerate(self.objs) if o is m][0])
        return {"result": type(v).__name__, "elems": ids, "mutated": sorted(set(self.mutated))}

    def model_lines(self, case):
        e = fromjson(case["expr"])
        if not int_only(e):
            return []
        return [" ".join(["alg", self.kinds if hasattr(self, "kinds") else "DXCGDXCG", *to_tokens(e)])]

    def model_obs(self, case, outs):
        w = outs[0].split()
        if w[0] == "err":
            return {"result": "err"}
        if w[1] == "base":
            return {"result": "base", "elems": [int(w[2])]}
        return {"result": w[1], "elems": [] if w[2] == "-" else [int(x) for x in w[2].split(",")]}

    def oracle(self, case, obs):
        e = fromjson(case["expr"])
        out = []
        if "exception" in obs:
            return [("algebra:unexpected-exception:" + obs["exception"], obs["message"])]
        if not wf(e):
            if obs["result"] != "err":
                out.append(("algebra:bad-count-accepted", f"repeat count not a positive integer but result {obs}"))
            return out
        if obs["result"] == "err":
            return [("algebra:valid-expression-refused", f"{case['expr']} raised {obs.get('exc')}")]
        lv = leaves_of(e)
        for m in obs.get("mutated", []):
            out.append(("algebra:operand-mutated", f"{case['expr']}: {m}"))
        if obs["elems"] != lv:
            out.append(("algebra:elements", f"elements {obs['elems']} != leaves {lv}"))
        if e[0] != "L":
            ks = {self.kinds[i] for i in lv}
            want = {"D": "CompositeDisplacementMove", "X": "CompositeExchangeMove"}.get(
                next(iter(ks)) if len(ks) == 1 else "", "CompositeMove")
            if obs["result"] != want:
                shape = "right-nested" if (e[0] == "A" and e[2][0] != "L") else "other"
                out.append((f"algebra:class:{want}->{obs['result']}:{shape}",
                            f"{case['expr']}: leaves kinds {sorted(ks)} gave {obs['result']}, expected {want}"))
        return out

    def classify(self, case, obs):
        e = fromjson(case["expr"])
        if e[0] == "L":
            return None
        return obs.get("result", "exception")


class OperationAlgebra(MoveAlgebra):
    name = "operation-algebra"

    def setup(self):
        import quansino.mc  # noqa: F401
        from quansino.operations.cell import IsotropicDeformation
        from quansino.operations.displacement import Ball, Box, Rotation, Sphere, Translation

        self.kinds = "GGGGGGGG"
        self.objs = [Ball(0.1), Box(0.2), Sphere(0.3), Translation(), Rotation(), IsotropicDeformation(0.05),
                     Ball(0.5), Box(0.6)]

    def real(self, case):
        if not hasattr(self, "objs"):
            self.setup()
        e = fromjson(case["expr"])
        self.mutated = []
        try:
            v = self.evaluate(e)
        except (ValueError, TypeError) as ex:
            return {"result": "err", "exc": type(ex).__name__}
        if any(v is o for o in self.objs):
            return {"result": "base", "elems": [[i for i, o in enumerate(self.objs) if o is v][0]]}
        return {"result": type(v).__name__, "mutated": sorted(set(self.mutated)),
                "elems": [[i for i, o in enumerate(self.objs) if o is m][0] for m in v.operations]}

    def model_lines(self, case):
        e = fromjson(case["expr"])
        if not int_only(e):
            return []
        return [" ".join(["oalg", *to_tokens(e)])]

    def oracle(self, case, obs):
        e = fromjson(case["expr"])
        if "exception" in obs:
            return [("opalgebra:unexpected-exception:" + obs["exception"], obs["message"])]
        if not wf(e):
            return [] if obs["result"] == "err" else [("opalgebra:bad-count-accepted", str(obs))]
        if obs["result"] == "err":
            return [("opalgebra:valid-expression-refused", f"{case['expr']} raised {obs.get('exc')}")]
        out = []
        for m in obs.get("mutated", []):
            out.append(("opalgebra:operand-mutated", f"{case['expr']}: {m}"))
        if obs["elems"] != leaves_of(e):
            out.append(("opalgebra:elements", f"{obs['elems']} != {leaves_of(e)}"))
        if e[0] != "L" and obs["result"] != "CompositeOperation":
            out.append(("opalgebra:class", obs["result"]))
        return out


class PlainCall(common.Suite):
    """calling a plain composite calls each element once, in order, and succeeds iff any does"""

    name = "plain-call"

    def cases(self, rng, tier):
        n = 200 if tier == "quick" else 3000
        for _ in range(n):
            k = rng.randint(1, 7)
            ms = [rng.randrange(5) for _ in range(k)]
            yield {"moves": ms, "succeed": sorted({i for i in range(5) if rng.random() < 0.3})}

    def real(self, case):
        import quansino.mc  # noqa: F401
        from quansino.moves.composite import CompositeMove

        log = []

        class Probe:
            def __init__(self, i):
                self.i = i

            def __call__(self, context):
                log.append(self.i)
                return self.i in case["succeed"]

        objs = [Probe(i) for i in range(5)]
        comp = CompositeMove([objs[i] for i in case["moves"]])
        r = comp(None)
        return {"order": log, "result": bool(r)}

    def model_lines(self, case):
        from common import dumps  # noqa: F401

        ms = ",".join(map(str, case["moves"]))
        sc = ",".join(map(str, case["succeed"])) or "-"
        return [f"callplain {ms} {sc}"]

    def model_obs(self, case, outs):
        w = outs[0].split()
        return {"order": [] if w[1] == "-" else [int(x) for x in w[1].split(",")], "result": w[2] == "true"}

    def oracle(self, case, obs):
        if "exception" in obs:
            return [("plaincall:exception:" + obs["exception"], obs["message"])]
        out = []
        if obs["order"] != case["moves"]:
            out.append(("plaincall:order", f"called {obs['order']} for elements {case['moves']}"))
        if obs["result"] != any(m in case["succeed"] for m in case["moves"]):
            out.append(("plaincall:result", str(obs)))
        return out

    def classify(self, case, obs):
        return f"n={len(case['moves'])},ok={obs.get('result')}"


class EmptyComposites(common.Suite):
    """composites with no element (the constructor and `from_dict` build them; `+` and `*` alone never do) are operands like
    any other: `empty * n` is an empty composite of the same class for every positive integer n, `empty + x` holds x's
    elements; and a repeat count that is not an integer scalar (a 0-d or 1-element array, a float) is refused whatever the
    composite holds. Oracle only (the model's composites are their element lists)."""

    name = "empty-composites"

    def cases(self, rng, tier):
        for cls in ("CompositeMove", "CompositeDisplacementMove", "CompositeExchangeMove", "CompositeOperation"):
            for n in (1, 2, 3, 7):
                for how in ("int", "np.int64"):
                    yield {"cls": cls, "op": "mul", "n": n, "how": how}
            yield {"cls": cls, "op": "add-empty"}
            yield {"cls": cls, "op": "add-one"}
            for bad in ("array0d", "array1", "float", "zero", "negative"):
                yield {"cls": cls, "op": "bad", "bad": bad}

    def real(self, case):
        import warnings

        import numpy as np
        import quansino.mc  # noqa: F401
        from quansino.moves.composite import CompositeMove
        from quansino.moves.displacement import CompositeDisplacementMove, DisplacementMove
        from quansino.moves.exchange import CompositeExchangeMove, ExchangeMove
        from quansino.operations.composite import CompositeOperation
        from quansino.operations.displacement import Ball

        C = {"CompositeMove": CompositeMove, "CompositeDisplacementMove": CompositeDisplacementMove,
             "CompositeExchangeMove": CompositeExchangeMove, "CompositeOperation": CompositeOperation}[case["cls"]]
        one = {"CompositeMove": lambda: DisplacementMove(np.arange(2)), "CompositeDisplacementMove": lambda: DisplacementMove(np.arange(2)),
               "CompositeExchangeMove": lambda: ExchangeMove(np.arange(2)), "CompositeOperation": lambda: Ball(0.1)}[case["cls"]]()
        elems = lambda v: list(getattr(v, "moves", None) if hasattr(v, "moves") else v.operations)  # noqa: E731
        with warnings.catch_warnings():
            warnings.simplefilter("ignore")
            try:
                if case["op"] == "mul":
                    n = case["n"] if case["how"] == "int" else np.int64(case["n"])
                    r = C([]) * n
                elif case["op"] == "add-empty":
                    r = C([]) + C([])
                elif case["op"] == "add-one":
                    r = C([]) + C([one])
                else:
                    n = {"array0d": np.array(2), "array1": np.array([2]), "float": 2.0, "zero": 0, "negative": -1}[case["bad"]]
                    r = C([one]) * n
            except (TypeError, ValueError) as e:
                return {"raised": type(e).__name__}
        return {"raised": None, "cls": type(r).__name__, "n": len(elems(r)),
                "same": all(x is one for x in elems(r))}

    def oracle(self, case, obs):
        if "exception" in obs:
            return [("empty-composite:unexpected-exception:" + obs["exception"], obs.get("message", ""))]
        tag = f"{case['cls']}:{case['op']}"
        if case["op"] == "bad":
            return [] if obs["raised"] else [(f"empty-composite:bad-count-accepted:{case['bad']}", f"{tag}: {obs}")]
        if obs["raised"]:
            return [(f"empty-composite:valid-expression-refused:{case['op']}", f"{tag} with {case.get('n')}: {obs['raised']}")]
        want_n = 1 if case["op"] == "add-one" else 0
        if obs["cls"] != case["cls"] or obs["n"] != want_n or not obs["same"]:
            return [(f"empty-composite:result:{case['op']}", f"{tag}: {obs}")]
        return []

    def classify(self, case, obs):
        return f"{case['cls']}:{case['op']}"


def suites(tier):
    return [MoveAlgebra(), OperationAlgebra(), PlainCall(), EmptyComposites()]
