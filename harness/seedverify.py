#!/venv/bin/python
"""Confirm a seeded change independently and file it under /verif/seeded/<name>/.

    seedverify.py <name> <dir with patch.diff, demo.py, notes.md> <property> [--skip-tests]

In a scratch git worktree of /repo (removed afterwards): demo.py must exit 0 on the clean tree and non-zero with the
patch; the repository's test suite must pass with the patch. Then the property's quick check is run against /repo with
the patch applied (and undone straight afterwards). Everything observed goes to seeded/<name>/meta.json.
"""
from __future__ import annotations

import json
import shutil
import subprocess
import sys
import time
from pathlib import Path

VERIF = Path("/verif")
REPO = "/repo"


def sh(cmd, timeout=3600, **kw):
    return subprocess.run(cmd, shell=True, capture_output=True, text=True, timeout=timeout, **kw)


def main():
    name, src, prop = sys.argv[1], Path(sys.argv[2]), sys.argv[3]
    others = [a for a in sys.argv[4:] if not a.startswith("--")]
    skip_tests = "--skip-tests" in sys.argv
    wt = Path(f"/tmp/seedverify/{name}")
    if wt.exists():
        sh(f"git -C {REPO} worktree remove --force {wt}")
    wt.parent.mkdir(parents=True, exist_ok=True)
    r = sh(f"git -C {REPO} worktree add --detach {wt} HEAD")
    assert r.returncode == 0, r.stderr
    meta = {"name": name, "property": prop, "repo_head": sh(f"git -C {REPO} rev-parse --short HEAD").stdout.strip(),
            "ran": []}
    env = f"PYTHONPATH={wt}/src"
    checks = {}
    try:
        shutil.copy(src / "demo.py", wt / "_demo.py")
        r = sh(f"cd {wt} && {env} /venv/bin/python _demo.py", timeout=1800)
        meta["demo_clean_exit"] = r.returncode
        meta["ran"].append(f"{env} /venv/bin/python demo.py   (clean tree) -> exit {r.returncode}")
        r = sh(f"git -C {wt} apply {src / 'patch.diff'}")
        meta["patch_applies"] = r.returncode == 0
        if r.returncode != 0:
            meta["error"] = r.stderr[-500:]
        else:
            r = sh(f"cd {wt} && {env} /venv/bin/python _demo.py", timeout=1800)
            meta["demo_changed_exit"] = r.returncode
            meta["demo_changed_tail"] = (r.stdout + r.stderr)[-600:]
            meta["ran"].append(f"{env} /venv/bin/python demo.py   (changed tree) -> exit {r.returncode}")
            if not skip_tests:
                t0 = time.time()
                r = sh(f"cd {wt} && {env} /venv/bin/python -m pytest -q -p no:cacheprovider -n 4 --timeout=900 "
                       f"-x --ignore=_demo.py 2>&1 | tail -3", timeout=3000)
                meta["tests_tail"] = r.stdout[-300:]
                meta["tests_pass"] = (" passed" in r.stdout) and ("failed" not in r.stdout) and ("error" not in r.stdout.lower())
                meta["ran"].append(f"pytest -q -n 4 on the changed tree ({time.time() - t0:.0f}s): {r.stdout.strip().splitlines()[-1] if r.stdout.strip() else ''}")
        # our own checks against the change: the harness imports quansino from the changed worktree (PYTHONPATH shadows
        # the editable install), so /repo itself is not touched and other runs are not disturbed
        if meta.get("patch_applies"):
            for p in [prop, *others]:
                t0 = time.time()
                r = sh(f"cd /verif && VERIF_EVIDENCE_DIR=/tmp/seedverify/evidence VERIF_REPLAY_DIR=/tmp/seedverify/replays PYTHONPATH={wt}/src QUANSINO_REPO={wt} /venv/bin/python harness/qcheck.py {p} --tier quick",
                       timeout=3000)
                viol = [ln for ln in r.stdout.splitlines() if ln.startswith("VIOLATION")]
                checks[p] = {"exit": r.returncode, "violation_lines": viol[:4], "wall_s": round(time.time() - t0, 1),
                             "summary": r.stdout.strip().splitlines()[-1] if r.stdout.strip() else ""}
                for v in viol[:1]:
                    rp = v.split("replay=")[1].split()[0]
                    try:
                        d = json.loads(Path(rp).read_text())
                        checks[p]["first_signature"] = d.get("signature") or str(d.get("broken"))[:200]
                    except Exception:  # noqa: BLE001
                        pass
    finally:
        sh(f"git -C {REPO} worktree remove --force {wt}")
    ok = meta.get("demo_clean_exit") == 0 and meta.get("demo_changed_exit", 0) != 0 and (skip_tests or meta.get("tests_pass"))
    meta["confirmed"] = bool(ok)
    meta["checks"] = checks
    meta["caught_by"] = [p for p, c in checks.items() if c["exit"] == 1]
    out = VERIF / "seeded" / name
    out.mkdir(parents=True, exist_ok=True)
    for f in ("patch.diff", "demo.py", "notes.md"):
        if (src / f).exists():
            shutil.copy(src / f, out / f)
    (out / "meta.json").write_text(json.dumps(meta, indent=1))
    print(json.dumps({k: meta[k] for k in ("name", "confirmed", "caught_by") if k in meta}), meta.get("demo_clean_exit"),
          meta.get("demo_changed_exit"), meta.get("tests_tail", "").strip().splitlines()[-1:] )
    for p, c in checks.items():
        print("  ", p, c["exit"], c["summary"][:160])


if __name__ == "__main__":
    main()
