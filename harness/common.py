"""Shared machinery of the quansino verification harness (see DESIGN.md §2.4, §4).

Every property check is `qcheck.py Cxx --tier quick|thorough`; this module holds what all of them
share: running the Lean model driver, building / auditing the Lean theorems, the generic
correspondence loop, violation reporting with known findings, and the evidence writer.
"""

from __future__ import annotations

import hashlib
import json
import os
import random
import re
import subprocess
import sys
import time
import traceback
import warnings
from pathlib import Path

VERIF = Path(__file__).resolve().parent.parent
LEAN = Path(os.environ.get("VERIF_LEAN_DIR", VERIF / "lean"))   # model-mutant self-tests point this at a scratch copy
REPO = Path(os.environ.get("QUANSINO_REPO", "/repo"))
EVIDENCE = Path(os.environ.get("VERIF_EVIDENCE_DIR", VERIF / "evidence"))   # seeded-change runs write elsewhere
REPLAYS = Path(os.environ.get("VERIF_REPLAY_DIR", VERIF / "replays"))
CORPUS = VERIF / "harness" / "corpus"
KNOWN = VERIF / "known_findings.json"

ALLOWED_AXIOMS = {"propext", "Classical.choice", "Quot.sound"}
FORBIDDEN = re.compile(
    r"\bsorry\b|\badmit\b|^\s*axiom\s|native_decide|bv_decide|implemented_by|\bunsafe\s|maxHeartbeats\s+0\b"
)

TRUSTED_BASE = [
    "Lean 4.33.0 kernel (leanchecker re-check in the thorough tier)",
    "axioms: propext, Classical.choice, Quot.sound only (audited with #print axioms on every run)",
    "Mathlib v4.33.0 as a library of proved facts",
    "the Python harness (generators, real-code drivers, oracles) and the line-protocol model driver",
]


class Timeout(Exception):
    pass


def seed_from_env() -> int:
    try:
        return int(os.environ.get("VERIF_SEED", "20260926"))
    except ValueError:
        return 20260926


def sub_rng(seed: int, *labels) -> random.Random:
    h = hashlib.sha256(("|".join([str(seed), *map(str, labels)])).encode()).hexdigest()
    return random.Random(int(h[:16], 16))


# --------------------------------------------------------------------------- private names of the package
# The harness has to reach three things the package keeps under private names: the simulation's generator, the seed it
# keeps, and the context's list of moving atoms. They are found by what they ARE (a numpy Generator among the object's
# attributes, an integer attribute whose name says seed, a context slot whose name says moving), so that renaming
# `_rng`, `_seed` or `_moving_indices` in the package is not reported as anything.

import weakref as _weakref

_RNG_NAMES: "_weakref.WeakKeyDictionary" = _weakref.WeakKeyDictionary()


def rng_names(sim) -> list[str]:
    try:
        return _RNG_NAMES[sim]
    except (KeyError, TypeError):
        pass
    import numpy as np

    attrs = getattr(sim, "__dict__", {})
    names = [k for k, v in attrs.items() if isinstance(v, np.random.Generator)]
    if not names:
        names = [k for k in attrs if "rng" in k.lower() or "generator" in k.lower()][:1] or ["_rng"]
    try:
        _RNG_NAMES[sim] = names
    except TypeError:
        pass
    return names


def get_rng(sim):
    return getattr(sim, rng_names(sim)[0])


def set_rng(sim, rng, context: bool = False) -> None:
    for n in rng_names(sim):
        setattr(sim, n, rng)
    ctx = getattr(sim, "context", None)
    if context and ctx is not None and hasattr(ctx, "rng"):
        ctx.rng = rng


def get_seed(sim) -> int:
    import numpy as np

    for k, v in getattr(sim, "__dict__", {}).items():
        if "seed" in k.lower() and isinstance(v, (int, np.integer)) and not isinstance(v, bool):
            return int(v)
    return int(sim._seed)


def moving_name(ctx) -> str:
    for klass in type(ctx).__mro__:
        slots = getattr(klass, "__slots__", ())
        for n in ((slots,) if isinstance(slots, str) else slots):
            if "moving" in n:
                return n
    for n in getattr(ctx, "__dict__", {}):
        if "moving" in n:
            return n
    return "_moving_indices"


def get_moving(ctx):
    return getattr(ctx, moving_name(ctx))


def set_moving(ctx, indices) -> None:
    setattr(ctx, moving_name(ctx), indices)


# --------------------------------------------------------------------------- Lean side


class lean_lock:
    """several checks may run at the same time on one Lean directory: builds (and regenerated sources) take the lock
    exclusively, everything that only READS compiled files (model driver, #print axioms, leanchecker) shares it — a driver
    never runs against a half-written .olean, and two `lake build`s never interleave"""

    def __init__(self, shared: bool):
        self.shared = shared
        self.fh = None

    def __enter__(self):
        try:
            import fcntl

            d = LEAN / ".lake"
            d.mkdir(parents=True, exist_ok=True)
            self.fh = open(d / "verif.lock", "a+")
            fcntl.flock(self.fh, fcntl.LOCK_SH if self.shared else fcntl.LOCK_EX)
        except Exception:  # noqa: BLE001  (no lock available: behave as before)
            self.fh = None
        return self

    def __exit__(self, *exc):
        if self.fh is not None:
            try:
                import fcntl

                fcntl.flock(self.fh, fcntl.LOCK_UN)
                self.fh.close()
            except Exception:  # noqa: BLE001
                pass
        return False


def run_model(lines: list[str], timeout: float = 600) -> list[str]:
    """Pipe `lines` to the Lean model driver and return its output lines (one per input line)."""
    if not lines:
        return []
    for ln in lines:
        if "\n" in ln:
            raise ValueError("newline inside a protocol line")
    inp = "\n".join(lines) + "\n"
    with lean_lock(shared=True):
        r = subprocess.run(
            ["lake", "env", "lean", "--run", "Driver.lean"],
            cwd=LEAN,
            input=inp,
            capture_output=True,
            text=True,
            timeout=timeout,
        )
    if r.returncode != 0:
        raise RuntimeError(f"model driver failed: {r.stderr[-2000:]}{r.stdout[-500:]}")
    out = r.stdout.split("\n")
    if out and out[-1] == "":
        out.pop()
    if len(out) != len(lines):
        raise RuntimeError(f"model driver returned {len(out)} lines for {len(lines)} ops")
    return out


def lake_build(targets: list[str], timeout: float = 3000) -> tuple[bool, str]:
    with lean_lock(shared=False):
        r = subprocess.run(
            ["lake", "build", *targets], cwd=LEAN, capture_output=True, text=True, timeout=timeout
        )
    return r.returncode == 0, (r.stdout + r.stderr)[-6000:]


def strip_comments(src: str) -> str:
    src = re.sub(r"/-.*?-/", lambda m: "\n" * m.group(0).count("\n"), src, flags=re.S)
    return re.sub(r"--.*", "", src)


def static_audit() -> list[str]:
    """grep the Lean sources (comments stripped) for forbidden constructs."""
    hits = []
    for p in sorted(LEAN.rglob("*.lean")):
        if ".lake" in p.parts:
            continue
        for n, line in enumerate(strip_comments(p.read_text()).split("\n"), 1):
            if FORBIDDEN.search(line):
                hits.append(f"{p.relative_to(LEAN)}:{n}: {line.strip()[:120]}")
    return hits


def axiom_audit(prop: str, imports: list[str], theorems: list[str]) -> dict[str, list[str] | None]:
    """`#print axioms` for each theorem; None = theorem missing / did not elaborate."""
    d = LEAN / ".lake" / "audit"
    d.mkdir(parents=True, exist_ok=True)
    f = d / f"Audit_{prop}.lean"
    body = "".join(f"import {m}\n" for m in imports)
    body += "".join(f"#print axioms {t}\n" for t in theorems)
    f.write_text(body)
    with lean_lock(shared=True):
        r = subprocess.run(
            ["lake", "env", "lean", str(f)], cwd=LEAN, capture_output=True, text=True, timeout=1800
        )
    text = r.stdout + r.stderr
    res: dict[str, list[str] | None] = {t: None for t in theorems}
    for t in theorems:
        m = re.search(
            r"'" + re.escape(t) + r"' depends on axioms: \[(.*?)\]", text, flags=re.S
        )
        if m:
            res[t] = [a.strip() for a in m.group(1).replace("\n", " ").split(",") if a.strip()]
        elif re.search(r"'" + re.escape(t) + r"' does not depend on any axioms", text):
            res[t] = []
    return res


def leanchecker(modules: list[str]) -> tuple[bool, str]:
    with lean_lock(shared=True):
        r = subprocess.run(
            ["lake", "env", "leanchecker", *modules], cwd=LEAN, capture_output=True, text=True, timeout=3000
        )
    return r.returncode == 0, (r.stdout + r.stderr)[-2000:]


# --------------------------------------------------------------------------- findings


def load_known() -> list[dict]:
    if KNOWN.exists():
        return json.loads(KNOWN.read_text())
    return []


def match_known(prop: str, signature: str) -> dict | None:
    import fnmatch

    for e in load_known():
        if e.get("status") == "known" and e.get("property") == prop:
            if fnmatch.fnmatchcase(signature, e.get("signature", "")):
                return e
    return None


def jdefault(o):
    try:
        import numpy as np

        if isinstance(o, np.ndarray):
            return o.tolist()
        if isinstance(o, (np.integer,)):
            return int(o)
        if isinstance(o, (np.floating,)):
            return float(o)
        if isinstance(o, (np.bool_,)):
            return bool(o)
    except ImportError:
        pass
    if isinstance(o, (set, frozenset, tuple)):
        return list(o)
    return repr(o)


def dumps(o, **kw) -> str:
    return json.dumps(o, default=jdefault, sort_keys=True, **kw)


def write_replay(prop: str, payload: dict) -> Path:
    REPLAYS.mkdir(exist_ok=True)
    text = dumps(payload, indent=1)
    h = hashlib.sha256(text.encode()).hexdigest()[:12]
    p = REPLAYS / f"{prop}-{h}.json"
    p.write_text(text)
    return p


# --------------------------------------------------------------------------- generic suite runner


class Suite:
    """One correspondence suite. Subclasses fill in the hooks; see DESIGN.md §3 (C)."""

    name = "suite"

    def cases(self, rng: random.Random, tier: str):  # -> iterable of JSON-able dicts
        raise NotImplementedError

    def corpus_cases(self):
        """minimized past failures and the witnesses of the recorded known findings: run first, on every run
        (harness/corpus/<property>/<suite name>/*.json, written by harness/mkcorpus.py)"""
        d = CORPUS / PROP[0] / self.name
        out = []
        if d.is_dir():
            for f in sorted(d.glob("*.json")):
                out.append(json.loads(f.read_text())["case"])
        return out

    def real(self, case) -> dict:  # observation of the real code (canonical, JSON-able)
        raise NotImplementedError

    def model_lines(self, case) -> list[str]:
        return []

    def model_obs(self, case, outs: list[str]) -> dict | None:  # None = no model for this case
        return None

    def compare(self, case, real_obs, model_obs) -> list[str]:
        """default: exact equality of the observation dictionaries (keys of the model only)"""
        diffs = []
        for k, v in model_obs.items():
            if real_obs.get(k) != v:
                diffs.append(f"{k}: real={real_obs.get(k)!r} model={v!r}")
        return diffs

    def oracle(self, case, real_obs) -> list[tuple[str, str]]:
        """the property itself on the real code; returns (signature, message) per failure"""
        return []

    def classify(self, case, real_obs) -> str | None:
        """a key identifying the non-trivial branch the case exercised (None = trivial)"""
        return "case"

    def known_scope(self, case) -> str | None:
        """signature under which a model/implementation divergence on this case is a recorded finding, if any"""
        return None


class Result:
    def __init__(self):
        self.evaluations = 0
        self.distinct = set()
        self.hist: dict[str, int] = {}
        self.samples = []
        self.disagreements = []  # (suite, case, real, model, diffs)
        self.violations = []  # (suite, case, real, signature, message)
        self.known = []  # (signature, what)
        self.suites_ok: dict[str, bool] = {}
        self.notes = []


def run_suite(suite: Suite, seed: int, tier: str, res: Result, deadline: float) -> None:
    rng = sub_rng(seed, suite.name, "gen")
    cases = list(suite.corpus_cases()) + list(suite.cases(rng, tier))
    reals = []
    lines: list[str] = []
    spans = []
    for case in cases:
        if time.time() > deadline:
            raise Timeout(suite.name)
        with warnings.catch_warnings():
            warnings.simplefilter("ignore")
            try:
                obs = suite.real(case)
            except Exception as e:  # the harness must never die on a real-code exception
                obs = {"exception": type(e).__name__, "message": str(e)[:300],
                       "trace": traceback.format_exc()[-1500:]}
        reals.append(obs)
        ml = suite.model_lines(case)
        spans.append((len(lines), len(lines) + len(ml)))
        lines.extend(ml)
    outs = run_model(lines) if lines else []
    ok = True
    for case, obs, (a, b) in zip(cases, reals, spans):
        res.evaluations += 1
        key = suite.classify(case, obs)
        if key is not None:
            res.hist[f"{suite.name}:{key}"] = res.hist.get(f"{suite.name}:{key}", 0) + 1
            res.distinct.add(hashlib.sha256((suite.name + dumps(case)).encode()).hexdigest())
        if len(res.samples) < 4 or (len(res.samples) < 8 and res.evaluations % 97 == 0):
            res.samples.append({"suite": suite.name, "case": case, "real": obs})
        for sig, msg in suite.oracle(case, obs):
            k = match_known(PROP[0], sig)
            if k:
                if not any(w == k["what"] for _, w in res.known):  # one line per listed finding
                    res.known.append((sig, k["what"]))
            else:
                ok = False
                res.violations.append((suite.name, case, obs, sig, msg))
        mobs = suite.model_obs(case, outs[a:b]) if b > a else None
        if mobs is not None:
            diffs = suite.compare(case, obs, mobs)
            if diffs:
                # a disagreement at a point where the real code is known to be defective is the finding
                sigs = [s for s, _ in suite.oracle(case, obs)]
                if sigs and all(match_known(PROP[0], s) for s in sigs):
                    continue
                scope = suite.known_scope(case)  # the case lies inside the scope of a recorded defect
                if scope:
                    k = match_known(PROP[0], scope)
                    if k:
                        if not any(w == k["what"] for _, w in res.known):
                            res.known.append((scope, k["what"]))
                        continue
                ok = False
                res.disagreements.append((suite.name, case, obs, mobs, diffs))
    res.suites_ok[suite.name] = ok


PROP = ["C00"]


def lean_stage(prop: str, modules: list[str], theorems: list[str], tier: str, res: Result) -> dict:
    info: dict = {"modules": modules, "theorems": {}}
    # the model driver imports every QModel.*IO module: build the executable models too, so that the driver never runs
    # against a stale or missing .olean (fresh checkout, or a model edited since the last full build)
    targets = ["QModel", "QGen", *modules]
    ok, log = lake_build(targets)
    if not ok:  # a concurrent build or a half-written .olean must not look like a broken theorem: retry once
        time.sleep(2)
        ok, log = lake_build(targets)
    info["build_ok"] = ok
    if not ok:
        info["build_log"] = log
    hits = static_audit()
    info["forbidden_hits"] = hits
    ax = axiom_audit(prop, modules, theorems) if ok else {t: None for t in theorems}
    if ok and any(a is None for a in ax.values()):
        ax = axiom_audit(prop, modules, theorems)
    for t, a in ax.items():
        good = a is not None and set(a) <= ALLOWED_AXIOMS
        info["theorems"][t] = {"axioms": a, "ok": good}
    if tier == "thorough" and ok:
        cok, clog = leanchecker(modules)
        info["leanchecker_ok"] = cok
        if not cok:
            info["leanchecker_log"] = clog
    return info


def finish(prop: str, tier: str, seed: int, t0: float, lean: dict, res: Result, suites: list[Suite],
           rule: str, assumptions: list[str], extra: dict | None = None) -> int:
    """decide, write evidence, print VIOLATION / KNOWN-FINDING lines; returns the exit status"""
    th = lean["theorems"]
    th_ok = [t for t, v in th.items() if v["ok"]]
    th_bad = [t for t, v in th.items() if not v["ok"]]
    lean_broken = (not lean["build_ok"]) or bool(th_bad) or bool(lean["forbidden_hits"]) or (
        lean.get("leanchecker_ok") is False
    )
    obligations = len(th) + len(suites)
    discharged = len(th_ok) + sum(1 for s in suites if res.suites_ok.get(s.name))
    status = 0
    out_lines = []
    for sig, what in res.known:
        out_lines.append(f"KNOWN-FINDING: property={prop} {what} [{sig}]")
    seen = set()
    for sname, case, obs, sig, msg in res.violations:
        if sig in seen:
            continue
        seen.add(sig)
        p = write_replay(prop, {"property": prop, "kind": "input", "suite": sname, "signature": sig,
                                "seed": seed, "case": case, "observed": obs, "message": msg})
        out_lines.append(f"VIOLATION property={prop} replay={p}")
        status = 1
        if len(seen) >= 5:
            break
    if not res.violations and res.disagreements:
        sname, case, obs, mobs, diffs = res.disagreements[0]
        p = write_replay(prop, {"property": prop, "kind": "obligation", "suite": sname, "seed": seed,
                                "broken": f"correspondence {sname} (model vs implementation)",
                                "case": case, "observed": obs, "model_says": mobs, "diffs": diffs,
                                "n_disagreements": len(res.disagreements)})
        out_lines.append(f"VIOLATION property={prop} replay={p} no-failing-input-found")
        status = 1
    if not res.violations and not res.disagreements and lean_broken:
        p = write_replay(prop, {"property": prop, "kind": "obligation", "seed": seed,
                                "broken": {"build_ok": lean["build_ok"], "theorems_not_checked": th_bad,
                                           "forbidden": lean["forbidden_hits"],
                                           "leanchecker_ok": lean.get("leanchecker_ok"),
                                           "log": lean.get("build_log", "")[-3000:]}})
        out_lines.append(f"VIOLATION property={prop} replay={p} no-failing-input-found")
        status = 1
    coverage = {
        "obligations": obligations,
        "discharged": discharged,
        "checker_cmd": f"cd lean && lake build {' '.join(lean['modules'])} && lake env lean .lake/audit/Audit_{prop}.lean"
        + (" && lake env leanchecker " + " ".join(lean["modules"]) if tier == "thorough" else ""),
        "trusted_base": TRUSTED_BASE,
        "theorems": {t: v["axioms"] for t, v in th.items()},
        "correspondence_suites": {s.name: bool(res.suites_ok.get(s.name)) for s in suites},
        "evaluations": res.evaluations,
        "distinct_nontrivial": len(res.distinct),
        "rule": rule,
        "branch_histogram": dict(sorted(res.hist.items())),
        "samples": res.samples[:8] or [{"note": "no sample"}],
        "disagreements": len(res.disagreements),
        "known_findings_printed": [s for s, _ in res.known],
        "notes": res.notes,
    }
    if extra:
        coverage.update(extra)
    ev = {
        "property_id": prop,
        "tier": tier,
        "seed": seed,
        "level": "proof",
        "coverage": coverage,
        "assumptions": assumptions,
        "wall_s": round(time.time() - t0, 2),
        "violations": len(seen) + (1 if status and not seen else 0),
    }
    EVIDENCE.mkdir(exist_ok=True)
    (EVIDENCE / f"{prop}.json").write_text(dumps(ev, indent=1))
    for ln in out_lines:
        print(ln)
    print(f"{prop} tier={tier} seed={seed} obligations={obligations} discharged={discharged} "
          f"cases={res.evaluations} distinct={len(res.distinct)} disagreements={len(res.disagreements)} "
          f"violations={len(res.violations)} known={len(res.known)} wall={ev['wall_s']}s -> exit {status}")
    sys.stdout.flush()
    return status


# --------------------------------------------------------------------------- float <-> protocol helpers
import struct  # noqa: E402


def fbits(x: float) -> str:
    """a Python float as the decimal value of its IEEE-754 bit pattern (the protocol's float format)"""
    return str(struct.unpack("<Q", struct.pack("<d", float(x)))[0])


def bitsf(s: str) -> float:
    return struct.unpack("<d", struct.pack("<Q", int(s)))[0]


def fl(xs) -> str:
    xs = list(xs)
    return ",".join(fbits(x) for x in xs) if xs else "-"


def lf(s: str) -> list[float]:
    return [] if s == "-" else [bitsf(t) for t in s.split(",")]


def close(a: float, b: float, rel: float = 1e-9, abs_: float = 0.0) -> bool:
    import math

    if math.isnan(a) or math.isnan(b):
        return math.isnan(a) and math.isnan(b)
    if math.isinf(a) or math.isinf(b):
        return a == b
    return abs(a - b) <= max(abs_, rel * max(abs(a), abs(b)))
