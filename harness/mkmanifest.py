"""Regenerates MANIFEST.json from the table below (kept next to the checks so the two stay in step)."""
import json
from pathlib import Path

V = Path(__file__).resolve().parent.parent

CHECKS = {
    "C17": ("proof: Lean theorems over all expression trees (flatten_faithful, specialised_iff, eval_ok_iff, plain_call) "
            "on a hand-written model of __add__/__mul__/__call__, tied to the code by exhaustive small trees + random trees on the real classes",
            "§6 C17", "Lean 4 theorems by induction on expression trees + differential correspondence with the real classes",
            "model of Python object identity by leaf numbers; typing generic aliases build plain composites"),
    "C19": ("proof: Lean theorems over all lists / atoms objects / index lists in any order (reinsert_delete, atoms_reinsert_delete incl. names, dtypes, dict order; search_total, search_default_kept, search_label, search_same_label_iff for any component list, size filter and default array) on a model of ASE mask-delete/fancy-pick, reinsert_atoms and the labelling loop of search_molecules, tied to the code on real Atoms (all ordered subsets of 4 atoms + random) and random molecular boxes vs an independent union-find over minimum-image distances",
            "§6 C19", "Lean 4 theorems (core only) by induction with position offsets + differential correspondence with real ASE/quansino objects",
            "connected components are an input of the model (harness union-find, compared with the real function on every case); integer-valued entries; same-label iff needs negative defaults on non-admitted atoms (collision witness proved)"),
    "C18": ("proof: Lean theorems over all min<=max, ref>0, v>=0 and both update functions (update_range, delta_range, delta_at_zero, delta_at_ref, delta_antitone, delta_tendsto_min, per-coordinate versions, fallback_is_ref, update_delta_range end-to-end through the getters) "
            "on a model of AdaptiveForceBias.update_delta/getters/tanh_update/exp_update, tied to the code by real update_delta() runs with prescribed committee arrays and a v-sweep 0..1e300",
            "§6 C18", "Lean 4 real-analysis theorems (closed forms, Antitone, Filter.Tendsto) + differential correspondence with the real class (Float instance, 1e-12) + oracle on real step()",
            "theorems over the reals: rounding at the anchors / float saturation not covered; zero-force coordinate gives 0/0 = nan (outside 'finite variance'); numpy summation orders mirrored; ForceBias.step itself is C13"),
    "C10": ("proof: Lean theorems over the reals for all step sizes/strains/cells/groups/masks/draws (ball_norm, sphere_norm, box_bounds, translation_centroid/uniform, rotation_rigid/keeps_com, quat_rotation, composite_sum, iso_scalar_identity, shape_det_one, deform_spd, mask_identity, *_symm incl. measure-preserving reparametrisations; moveLoop_mem/moveLoop_bound/ball_move_norm: whatever check_move vetoes, the displacement a DisplacementMove finally applies is ONE proposal, so every bound carries over) on a hand-written model of every calculate() and of the move's retry loop, tied to the code by scripted-generator correspondence on real contexts + oracles with PCG64",
            "§6 C10", "Lean 4 + Mathlib (NormedSpace.exp, spectral theorem, measure theory) + differential correspondence with a scripted numpy Generator + 3-seed odd-moment symmetry tests",
            "matrix exponential is a model parameter (NormedSpace.exp in proofs / Taylor Float in driver / scipy in code, compared at 1e-7); Haar-uniformity of the normalised Gaussian quaternion assumed; first-clause deformation claims read with the default mask"),
    "C02": ("proof: Lean theorems over the reals (accept_iff_min, canonical/hamiltonian/isobaric/isotension_textbook, isotension_hydrostatic, gc_prefactor_closed, gc_insert/delete_textbook, debroglie_def, evaluate_total, favourable_accepted, setter_next_trial_*) on a Num-generic model of every criteria.evaluate; tied to the code by decisions of the real evaluate on real contexts at uniform numbers 1e-6 either side of the textbook threshold",
            "§6 C02", "Lean 4 theorems over the reals on a model shared with the Float driver + differential decision correspondence and an independent log-space textbook oracle",
            "IEEE rounding of the exponent not verified (decisions compared 1e-6 from the threshold); isotension strain = the matrix the code computes; |delta|=2 only checked for no-raise and model agreement"),
    "C15": ("proof: Lean theorems over all observer lists/intervals/step counts/split lists (positive_interval_calls, negative_interval_once, header_once_before_rows, split_run, split_many, entry_points_agree, exact_steps) on a hand-written model of Driver.irun/call_observers/run/srun with eager and lazy step; witness split_run_coded_false for the unfixed loop; tied to Canonical/GrandCanonical/ForceBias by differential runs over all compositions of n<=7 (quick) with zero-length segments, all entry points",
            "§6 C15", "Lean 4 induction over the run loop + differential correspondence and split-vs-unsplit oracle on the real drivers",
            "simulation step and validate_simulation are abstract functions (hypothesis ValidateStable for the split theorems, checked on every case)"),
    "C16": ("proof: Lean theorems on a buffered-file machine (disk/pending/position/O_APPEND) for the Logger/Trajectory/Restart op protocols at every cut and every crash image (log_after_call, log_crash_prefix, traj_after_call, traj_crash_prefix, restart_after_call, restart_crash_loadable_partial, restart_crash_window; restart_crash_loadable_false by witness = known finding), tied to the code by instrumented real files in GrandCanonical runs (protocol conformance, file semantics after every op, every op index as crash point)",
            "§6 C16", "Lean 4 induction over op sequences + instrumented-file correspondence and crash-image oracle (ase.io.read / read_json on real bytes)",
            "process-crash model: disk = visible bytes + a prefix of the user-space buffer; fsync/power loss out of scope; 'loadable' = image is a completed document (model) / read_json succeeds and matches a saved state (oracle)"),
    "C13": ("proof: Lean theorems on the coded force-bias trial probability over the reals (= published Bal-Neyts density, 0<=P<=1, integral of P = 1 hence acceptance 1/2 per round, favours the force, mean (coth g - 1/g)/2 strictly increasing, |g|<=709.782712, |dx|<=delta(m_min/m)^p, loop termination for every accepting script, one set_positions) on a hand-written model of ForceBias.step, tied to the code by recorded-generator replay on prescribed forces",
            "§6 C13", "Lean 4 + Mathlib interval integrals; differential correspondence (recorded PCG64 draws replayed in the Float model) + bound/termination/single-update oracles + KS search",
            "numpy SIMD exp vs libm differ by 1 ulp: decisions within 2e-15(2+coth|g|) compared on gamma only; |g| at rounding level not tied; T in [1,1e4] K"),
    "C03": ("proof: Lean theorems on the M-machine (a line-by-line model of MonteCarlo.step, the moves, contexts and ensemble save/revert): fail_restores, reject_restores (canonical, Hamiltonian, isobaric/isotension, grand canonical; bare moves, CompositeDisplacementMove, plain composites), reject_restores_exchange and reject_restores_composite_insertion/deletion (ExchangeMove and CompositeExchangeMove incl. FixAtoms), inv_trial, history_restores at every position of any history, history_restores_any (histories that also contain bare cell moves under Isobaric/Isotension and Hamiltonian moves), gc_mixed_history (grand-canonical histories interleaving displacements, insertions and deletions); known finding proved as plain_two_deletions_not_restored; tied to the code by scripted histories on the real drivers with snapshots after every trial",
            "§6 C03", "Lean 4 invariant proofs over a state-machine model + differential correspondence (snapshot after every trial) + before/after oracle on the real code",
            "integer-valued positions/momenta/cells; ASE extend/__delitem__/set_positions/set_cell/FixAtoms semantics as modelled; plain composites with exchange members are not covered by theorems (known finding); composite deletion is proved for members sharing one labelling"),
    "C05": ("proof: Lean theorems on the M-machine: labels_aligned_after_accept (every label-bearing move reachable from the table, any composite, repeated objects), inserted_particle_one_label, auto_label_fresh, default_label_honoured (0 and negatives), nexch_counter, template untouched, not_accepted_keeps_labels, ginv_trial and gc_history (after ANY history of accepted/rejected/failed insertions and deletions: labels aligned, constraint indices valid, counter = initial + insertions - deletions); known finding proved as composite_insertion_shares_label; tied to the code by scripted grand-canonical histories on the real driver",
            "§6 C05", "Lean 4 theorems on the notification/label model + differential correspondence + bookkeeping oracle fed by a bare user move that receives the documented notifications",
            "histories interleave single ExchangeMove trials and displacement-type trials (gc_mixed_history); composite exchange inside histories is covered by correspondence only; members of a composite share one labelling"),
    "C11": ("proof: Lean theorems on the M-machine for DisplacementMove.__call__/attempt_displacement and CompositeDisplacementMove.__call__: disp_changes_only_selected, negative_never_moved, disp_no_candidate_fails, disp_fixed_stays, composite_no_repeat, composite_reports_count, composite_count, for all label arrays, scripts and retry budgets; tied to the code by scripted accepted/failed displacement trials on the real moves",
            "§6 C11", "Lean 4 theorems by case analysis/induction on the move model + differential correspondence + row-wise oracle on real arrays",
            "composite_count is stated for members sharing one labelling (what move * n produces); heterogeneous labelings are not covered"),
    "C20": ("proof: the model of the driver/user-object interface (Proto20.trialTrace) can mention only the protocol methods; Lean theorems trace_step, notify_atoms, notify_cell, no_notification_elsewhere fix the shape of every trial's trace for all tables/outcomes; tied to the six real drivers by strict proxies around bare user moves and criteria that record every attribute access",
            "§6 C20", "Lean 4 theorems on a protocol-trace model + strict-proxy correspondence and oracle on the real drivers",
            "Python-internal dunder look-ups are not counted as accesses; indices passed to notifications are taken from the real call and checked against the atom count"),
    "C04": ("proof: Lean theorems on the calculator layer over the M-machine (ASE get_property/check_state/reset/calculate protocol, three calculator styles, what criteria/save_state/revert_state/logger do to the calculator): getEnergy_spec (a cached result is never attributed to another configuration), einv_trial (reported energy = reference energy = from-scratch energy, remembered positions = current, after accepted/rejected/failed trials), ainv_trial_of / forces_history (cached result ARRAYS — forces — read after any trial are those of the current atoms also for calculators that write their arrays in place; forces_stale_when_aliased is the witness for the pinned by-reference behaviour, repaired), energy_history / energy_history_grand (the logged and the reference energy are the from-scratch energy at EVERY position of any history of displacement-type, cell, Hamiltonian and single exchange trials), evals_trial_of / evals_history (any driver: at most one evaluation per trial that reaches its criteria, exactly one when the trial configuration differs from the cached one, none for a failed trial, a rejection or a logger read), one_eval_per_trial, reject_and_log_free, stateless_always_fresh; known finding proved as peratom_unusable_after_rejected_exchange; tied to the code by scripted histories with three real ASE-protocol calculators, evaluation counters and an independent from-scratch evaluation after every trial",
            "§6 C04", "Lean 4 invariant proofs over a calculator-cache model + differential correspondence (energies, reference energy, evaluation counts per trial) + from-scratch oracle",
            "einv_trial is proved for every driver (canonical, Hamiltonian, isobaric/isotension, grand canonical) on displacement-type trees, cell moves, Hamiltonian moves and single exchange moves; evaluation counts (evals_trial_of) for every driver given the restoration facts, instantiated over whole histories for canonical/Hamiltonian/isobaric (evals_history); energy bookkeeping for CompositeExchangeMove trials is proved too (einv_trial_composite_exchange; deletion direction for members sharing one labelling); plain composites with exchange members (known finding) by correspondence and oracle only; calculators must follow ASE's protocol"),
    "C06": ("proof (partial): Lean theorems seed_honoured (every seed incl. 0; witness seed_zero_replaced_raw for the unfixed line), restored_seed, run_deterministic / same_seed_same_trajectory (trajectory, histories, log text and final state are functions of configuration and stream for any state of the global generators; step_is_trial ties each step to MM.trial), different_streams_differ_partial on a model of Driver.__init__ and of yield_moves/step/irun over the M-machine; tied to the code by Driver(seed=n)._seed on all seven drivers with a stubbed entropy source, scripted whole runs on the real drivers, and bit-for-bit double runs of 8 simulation kinds under differently seeded and perturbed, recorder-poisoned global generators",
            "§6 C06", "Lean 4 (core) + differential correspondence with a scripted generator + double-run / poisoned-globals / recording-generator oracles + AST scan",
            "NOT verified: that PCG64/SeedSequence map different seeds to different streams (empirical seed-ignored check only); equal seed => equal stream is numpy's contract; calculators assumed deterministic"),
    "C09": ("proof: Lean theorems over all move tables/cycle counts/steps/scripts (yield_length, yield_due, yield_min_count, zero_weight_never_free, free_slot_measure, addMove_inv, step_history_length) on a hand-written model of add_move/yield_moves/step over a scripted random oracle, tied to the code by scripted-generator correspondence, a numpy-twin test of the oracle and a real-PCG64 frequency oracle",
            "§6 C09", "Lean 4 theorems by induction on the cycle loop + counting over distinct slots; differential correspondence with ScriptedRNG",
            "numpy Generator modelled as an oracle (uniform draws, inverse-CDF choice, distinct replace=False sample); weights are rationals"),
    "C01": ("proof (partial by nature): Lean theorems over the reals: reversibility of the Metropolis/Hastings kernel on any finite state space (metropolis/hastings_detailed_balance, detailed_balance_stationary, stationary_forever, kernel_markov, also for the executable model), accept_probability (Lebesgue measure of the accepting draws = min(1,exp e)), the model's exponents are log-ratios of the textbook densities (canonical/hamiltonian/isobaric_ratio, gc_ratio, gc_pair_inverse, gc_detailed_balance in scaled and configuration-density form, gc_poisson_ratio), finite-skeleton chains built from Crit.* keep the textbook densities (canonical/isobaric/gc_chain_stationary, hypotheses discharged by the cited C10/C03 theorems), and the closed-form averages (gamma_mean => (N+1)kT/P, dipole_mean = coth x - 1/x, harmonic_energy_3N = (3N/2)kT, poisson_of_ratio + mean + variance); tied to the code by the C02/C10/C03 correspondences and by the detailed-balance residual measured to 1e-8 on the real moves/criteria/drivers",
            "§6 C01", "Lean 4 + Mathlib (Finset sums, Gamma/Gaussian integrals, FTC, Fubini, HasSum) + acceptance probabilities of the real criteria by bisection on a scripted uniform + fixed-seed srun() ensemble runs with batch-means error bars (6 sigma on three seeds)",
            "the limit of the chain is not exhibited: irreducibility/aperiodicity, convergence of finite runs, PCG64 quality, Haar-uniformity of the normalised Gaussian quaternion not verified; Lean does not identify the Python chain with a Fintype kernel (modelling step)"),
    "C14": ("proof (partial): Lean theorems over the reals about a line-by-line model of Verlet.integrate / maxwell_boltzmann_distribution / HamiltonianDisplacementMove.attempt_displacement: exact time-reversibility for every force function, masses>0, dt!=0, any step count; exact shadow-energy conservation and a uniform O(dt^2) energy bound for harmonic wells (general smooth potentials only numerically: order fit); N(0,m kT) law of refreshed momenta; forced temperature within T*1e-15/T_real; last_kinetic_energy = KE of the momenta drawn in the successful attempt. Tied to the code by differential runs of the real integrator/move/driver against the Float model, reversal and dt-ladder experiments (harmonic, quartic, Morse, EMT)",
            "§6 C14", "Lean 4 theorems (induction on steps, field identities, Mathlib gaussianReal/variance) + differential correspondence and property oracles on the real classes",
            "energy-error order for all smooth potentials is not proved (harmonic only); reversal tolerance 1e-9*scale plus the rounding budget eps*steps*m|q|/dt of the coded momentum recomputation"),
    "C12": ("proof: Lean theorems over the reals about models of ASE FixAtoms/FixCom and quansino FixRot and of displacement / composite / Hamiltonian / force-bias trials: fixed atoms never move and the centre of mass never drifts under any history of accepted/rejected/vetoed trials (any operation, force field, dt, step count, delta, T); FixRot leaves zero angular momentum (invertible inertia tensor; also proved from masses>0 + non-collinear positions) and unchanged linear momentum. Tied to the code by replaying every trial of real Canonical / HamiltonianCanonical / ForceBias histories (50-500 trials) in the Float model and by oracles on the real atoms",
            "§6 C12", "Lean 4 theorems (invariant induction over histories, 3x3 linear algebra, Mathlib crossProduct/det) + per-trial differential correspondence with the real drivers",
            "one constraint kind at a time; LAPACK eigen-route of FixRot modelled by a direct inverse; COM rounding drift bounded by the oracle (1e-9*size) only"),
    "C08": ("proof: Lean theorems over the class table and import graph regenerated from the live package on every run (all_specs_wf, settings_preserved, imports_ok by decide +kernel) lifted to all values and all nestings by roundtrip_of_wf (mutual induction over object trees) on a model of every to_dict/from_dict and of CPython import semantics; translators validated every run against real decode(encode(to_dict()))->from_dict round trips (sentinel and falsy values, mutated dictionaries, depth<=3) and real fresh-interpreter imports of all public modules",
            "§6 C08", "translator-generated Lean tables + kernel evaluation + induction; differential correspondence of predicted vs real round-trip outcome",
            "leaf values abstract (ASE JSON identity on leaves exercised, not proved); tunables rule/exclusions as recorded in gen_classes.py; modules outside the package assumed importable"),
    "C07": ("proof: Lean theorems specs_wf and restart_file_is_to_dict over the regenerated class table (decide +kernel: todict attribute-lookup model), load_save_equiv, equiv_bisim, restart_continues (all k<=n, induction) for any deterministic step that factors through the serialised state; tied to the code by restarting the real drivers from the file the RestartObserver wrote at EVERY step k (7 drivers, 26 move tables incl. masked/composite operations, composite and molecular exchange, falsy settings, seed 0) and comparing atoms, energies, history, labels, counters, generator state bitwise",
            "§6 C07", "translator-generated specs + Lean induction + exhaustive-in-k restart oracle on real files",
            "step abstract (Factors hypothesis), tested move by move; energies bitwise with a pure numpy calculator, 1e-10 with EMT; calculator, observers and move_history are documented transients"),
}

NOT_APPLICABLE = {}


def main():
    props = [json.loads(l)["id"] for l in (V / "properties.jsonl").read_text().splitlines() if l.strip()]
    checks = []
    for pid in props:
        if pid not in CHECKS:
            continue
        text, ref, tech, note = CHECKS[pid]
        checks.append({
            "property_id": pid,
            "quick_cmd": f"/venv/bin/python harness/qcheck.py {pid} --tier quick",
            "thorough_cmd": f"/venv/bin/python harness/qcheck.py {pid} --tier thorough",
            "evidence_file": f"/verif/evidence/{pid}.json",
            "replay_cmd_template": f"/venv/bin/python harness/qcheck.py {pid} --replay {{path}}",
            "engine": "lean4-qverif",
            "level_claimed": {"category": "proof", "text": text, "design_ref": ref},
            "level_note": note + "; trusted base: Lean 4.33 kernel, axioms propext/Classical.choice/Quot.sound, Mathlib, the Python harness (DESIGN §5)",
            "technique": tech,
        })
    na = [{"property_id": p, "reason": NOT_APPLICABLE.get(p, "check not built yet in this round (no claim made)")}
          for p in props if p not in CHECKS]
    m = {
        "version": 1,
        "setup_cmd": "cd /verif/lean && lake build && cd /verif && /venv/bin/python harness/selftest.py",
        "hooks": {
            "guard": "QUANSINO_VERIF",
            "enable": "no source hooks: the harness substitutes generator/operation/criteria/calculator/file objects from outside (DESIGN §2.4)",
            "baseline_off_cmd": "cd /repo && /venv/bin/python -m pytest -ra -q -p no:cacheprovider --timeout=900 --continue-on-collection-errors",
            "source_commits": [],
            "add_only": True,
        },
        "engines": [{"name": "lean4-qverif", "path": "/verif/lean", "serves_properties": sorted(CHECKS),
                     "kind_free_text": "Lean 4 models (QModel), theorems (QProps), regenerated tables (QGen); Python correspondence harness in /verif/harness"}],
        "checks": checks,
        "notes": "All checks: harness/qcheck.py <id> --tier quick|thorough [--replay file]. Exit 2 = time-out/harness error.",
        "not_applicable": na,
    }
    (V / "MANIFEST.json").write_text(json.dumps(m, indent=1) + "\n")


if __name__ == "__main__":
    main()
