#!/venv/bin/python
"""Entry point of every registered check:  qcheck.py Cxx --tier quick|thorough [--replay file]

Exit status: 0 = property held on everything explored, 1 = VIOLATION line printed, 2 = time-out / harness error.
"""
from __future__ import annotations

import argparse
import importlib
import json
import os
import sys
import time
import traceback
import warnings

sys.path.insert(0, os.path.dirname(os.path.abspath(__file__)))
warnings.simplefilter("ignore")

import common  # noqa: E402


def main() -> int:
    ap = argparse.ArgumentParser()
    ap.add_argument("prop")
    ap.add_argument("--tier", default=os.environ.get("VERIF_TIER", "quick"), choices=["quick", "thorough"])
    ap.add_argument("--replay")
    ap.add_argument("--budget", type=float, default=None, help="wall-clock budget in seconds")
    args = ap.parse_args()
    prop = args.prop.upper()
    common.PROP[0] = prop
    mod = importlib.import_module(f"props.{prop.lower()}")
    if args.replay:
        payload = json.loads(open(args.replay).read())
        return replay(mod, payload)
    tier = args.tier
    seed = common.seed_from_env()
    t0 = time.time()
    budget = args.budget or (900 if tier == "quick" else 5400)
    deadline = t0 + budget
    res = common.Result()
    try:
        if hasattr(mod, "pre"):
            mod.pre(tier, res)
        lean = common.lean_stage(prop, mod.LEAN_MODULES, mod.THEOREMS, tier, res)
        suites = mod.suites(tier)
        for s in suites:
            common.run_suite(s, seed, tier, res, deadline)
        lean_broken = (not lean["build_ok"]) or any(not v["ok"] for v in lean["theorems"].values())
        if (res.disagreements or lean_broken) and not res.violations:
            # a tie or a theorem broke: search the real code for a concrete failing input (DESIGN §4)
            extra = common.Result()
            search_deadline = min(deadline, time.time() + (240 if tier == "quick" else 1200))
            try:
                for k in range(1, 4):
                    for s in suites:
                        s2 = OracleOnly(s)
                        common.run_suite(s2, seed + 7919 * k, tier, extra, search_deadline)
                    if extra.violations:
                        break
            except common.Timeout:
                pass
            res.violations.extend(extra.violations)
            for kf in extra.known:
                if kf not in res.known:
                    res.known.append(kf)
            res.notes.append(f"failing-input search: {extra.evaluations} further cases, {len(extra.violations)} violations")
        extra_cov = mod.extra_coverage(res) if hasattr(mod, "extra_coverage") else None
        return common.finish(prop, tier, seed, t0, lean, res, suites, mod.RULE, mod.ASSUMPTIONS, extra_cov)
    except (common.Timeout, TimeoutError) as e:
        print(f"TIMEOUT {prop}: {e}")
        return 2
    except Exception:
        traceback.print_exc()
        print(f"HARNESS-ERROR {prop}")
        return 2


class OracleOnly(common.Suite):
    """wrap a suite so that only the real code and the property oracle run (no model)"""

    def __init__(self, inner):
        self.inner = inner
        self.name = inner.name

    def cases(self, rng, tier):
        return self.inner.cases(rng, tier)

    def real(self, case):
        return self.inner.real(case)

    def oracle(self, case, obs):
        return self.inner.oracle(case, obs)

    def classify(self, case, obs):
        return self.inner.classify(case, obs)


def replay(mod, payload) -> int:
    """re-execute a replay file on the real code only (no Lean needed)"""
    if payload.get("kind") == "obligation" and "case" not in payload:
        print("replay names a broken obligation, no concrete input:", json.dumps(payload.get("broken"))[:2000])
        return 1
    suites = {s.name: s for s in mod.suites("quick")}
    s = suites[payload["suite"]]
    obs = s.real(payload["case"])
    fails = s.oracle(payload["case"], obs)
    print("case:", common.dumps(payload["case"])[:3000])
    print("observed now:", common.dumps(obs)[:3000])
    if payload.get("model_says") is not None:
        print("model said:", common.dumps(payload["model_says"])[:3000])
    for sig, msg in fails:
        print(f"FAILS [{sig}] {msg}")
    if not fails:
        print("property oracle passes on this input now")
    return 1 if fails else 0


if __name__ == "__main__":
    sys.exit(main())
