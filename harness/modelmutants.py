#!/venv/bin/python
"""Model-mutant self-test: is the tie between the Lean models and the Python code CHECKED?

For every entry of `MUTANTS` (a small semantic change of one definition in `lean/QModel/*.lean`) the Lean tree is
copied WITH its `.lake` build directory to `<work>/<name>/lean`, the replacement is applied, and the property check
expected to notice is run against the copy (`VERIF_LEAN_DIR`, evidence and replays in the scratch directory too).
The real code is unchanged, so the only honest outcomes are

* exit 1 with every VIOLATION line ending in `no-failing-input-found` (theorems stopped building and/or the
  correspondence suites disagree; the search of the real code for a failing input finds none), or
* exit 0: the mutant was NOT noticed (equivalent mutant, or a blind spot of the correspondence).

A VIOLATION line WITHOUT the suffix would be a false accusation of the code and is reported as `false_accusation`.

    /venv/bin/python harness/modelmutants.py [--only name,name] [--jobs 4] [--work /tmp/qverif-mutants] [--keep]
    /venv/bin/python harness/modelmutants.py --list
    /venv/bin/python harness/modelmutants.py --check-apply        # only verify that every `old` occurs exactly once
    /venv/bin/python harness/modelmutants.py --check-build        # ... and that every mutated MODEL still compiles
    /venv/bin/python harness/modelmutants.py --baseline all       # control: the 20 checks on an unchanged copy

Results: `harness/modelmutants_results.json` (list of records, merged by (mutant, property) over runs).
"""
from __future__ import annotations

import argparse
import concurrent.futures as cf
import json
import os
import re
import shutil
import subprocess
import sys
import time
from pathlib import Path

HERE = Path(__file__).resolve().parent
VERIF = HERE.parent
LEAN = VERIF / "lean"
RESULTS = HERE / "modelmutants_results.json"
DEFAULT_WORK = Path(os.environ.get("MM_WORK", "/tmp/qverif-mutants"))
PY = "/venv/bin/python"


def M(name, area, file, old, new, props, why):
    return {"name": name, "area": area, "file": file, "old": old, "new": new, "props": props, "why": why}


# ----------------------------------------------------------------------------------------------------------------
# the table.  `old` must occur EXACTLY once in `file`; `props` = the checks expected to notice (all are run).
# ----------------------------------------------------------------------------------------------------------------
MUTANTS = [
    # ---- Machine (C03, C05, C11)
    M("machine-ham-revert-forgets-momenta", "Machine", "QModel/Machine.lean",
      "rows := setPositions (setMomenta s.atoms.rows c.lastMom) c.lastPos } }",
      "rows := setPositions s.atoms.rows c.lastPos } }",
      ["C03"], "Hamiltonian revert_state restores the positions but forgets the momenta (a restored field forgotten)"),
    M("machine-attempt-no-restore-after-veto", "Machine", "QModel/Machine.lean",
      "else attemptLoop moving constr old n { a1 with rows := setPositions a1.rows old } i2",
      "else attemptLoop moving constr old n a1 i2",
      ["C03", "C11"], "attempt_displacement does not put the atoms back after a vetoed attempt"),
    M("machine-newlabel-max-not-plus-one", "Machine", "QModel/Machine.lean",
      "if u.isEmpty then 0 else maxFrom (-1) u + 1",
      "if u.isEmpty then 0 else maxFrom (-1) u",
      ["C05"], "label of a new particle: max instead of max+1 (off by one)"),
    M("machine-grand-revert-keeps-remapped-constraints", "Machine", "QModel/Machine.lean",
      "let fixed2 := if c.deletedIdx.isEmpty then a1.fixed else (c.savedFixed.getD a1.fixed)",
      "let fixed2 := a1.fixed",
      ["C03"], "grand-canonical revert_state re-inserts the rows but forgets to restore the saved FixAtoms indices"),
    M("machine-isobaric-revert-forgets-cell", "Machine", "QModel/Machine.lean",
      "rows := setPositions s.atoms.rows c.lastPos, cell := c.lastCell } }",
      "rows := setPositions s.atoms.rows c.lastPos } }",
      ["C03"], "isobaric revert_state restores positions but not the cell"),
    M("machine-compexch-delta-counts-rows", "Machine", "QModel/Machine.lean",
      "delta := c.delta - (labs.eraseDups.length : Int) },",
      "delta := c.delta - (idx.length : Int) },",
      ["C05"], "composite deletion: particle_delta decremented by the number of ATOMS removed, not of molecules"),
    M("machine-exch-coin-le", "Machine", "QModel/Machine.lean",
      "| none, none => (decide (s.inp.draw.1 < m.bias), { s with inp := s.inp.draw.2 })",
      "| none, none => (decide (s.inp.draw.1 ≤ m.bias), { s with inp := s.inp.draw.2 })",
      ["C05"], "insertion/deletion coin: draw <= bias instead of draw < bias"),
    M("machine-applydisp-always-honours-fixatoms", "Machine", "QModel/Machine.lean",
      "if moving.contains i && !(constr && isFixed a i) then",
      "if moving.contains i && !(isFixed a i) then",
      ["C11", "C03"], "set_positions: FixAtoms honoured even with apply_constraints=False (flag dropped)"),
    # second pass: run boundaries (userEdit / newRun / validate) and the pre-selected species of another size
    M("machine-useredit-cell-ignored", "Machine", "QModel/Machine.lean",
      "{ s with atoms := { s.atoms with rows := rows, cell := newCell.getD s.atoms.cell } }",
      "{ s with atoms := { s.atoms with rows := rows, cell := s.atoms.cell } }",
      ["C03"], "between two run() calls: the user's atoms.set_cell(...) is lost (only the new positions are taken over)"),
    M("machine-newrun-skips-validate", "Machine", "QModel/Machine.lean",
      "  validate sim (userEdit s newPos newCell)",
      "  userEdit s newPos newCell",
      ["C03"], "the next run() does not call validate_simulation(): last_positions/last_cell stay those of the old run"),
    M("machine-validate-isobaric-forgets-cell", "Machine", "QModel/Machine.lean",
      "| .isobaric => { s with ctx := { s.ctx with lastPos := positions s.atoms.rows, lastCell := s.atoms.cell } }",
      "| .isobaric => { s with ctx := { s.ctx with lastPos := positions s.atoms.rows } }",
      ["C03"], "Isobaric.validate_simulation remembers the positions but not the cell"),
    M("machine-validate-hamiltonian-forgets-momenta", "Machine", "QModel/Machine.lean",
      "| .hamiltonian => { s with ctx := { s.ctx with lastPos := positions s.atoms.rows, lastMom := momenta s.atoms.rows } }",
      "| .hamiltonian => { s with ctx := { s.ctx with lastPos := positions s.atoms.rows } }",
      ["C03"], "HamiltonianCanonical.validate_simulation remembers the positions but not the momenta"),
    M("machine-notify-flat-again", "Machine", "QModel/Machine.lean",
      "    notifyParts refs (m :: ns) (added.drop n) removed (notifyRefs refs (added.take n) [] h)",
      "    notifyRefs refs added removed h",
      ["C05", "C03"], "several inserted particles are notified in ONE call again (the flat notification of before the repair)"),
    M("machine-sizes-not-recorded", "Machine", "QModel/Machine.lean",
      "           addedSizes := c.addedSizes ++ [idx.length], delta := c.delta + 1 }",
      "           addedSizes := c.addedSizes, delta := c.delta + 1 }",
      ["C05"], "recordAdded forgets the size of the inserted particle"),
    M("machine-notify-parts-removed-first", "Machine", "QModel/Machine.lean",
      "    notifyParts refs (m :: ns) (added.drop n) removed (notifyRefs refs (added.take n) [] h)",
      "    notifyParts refs (m :: ns) (added.drop n) [] (notifyRefs refs (added.take n) removed h)",
      ["C05"], "the removed indices travel with the FIRST per-particle notification"),
    M("machine-added-indices-from-template-size", "Machine", "QModel/Machine.lean",
      "  let moving := addMoving new s.atoms.rows.length\n  let res :=",
      "  let moving := addMoving s.ctx.template s.atoms.rows.length\n  let res :=",
      ["C05"], "attempt_addition: the indices of the added rows are counted with the size of exchange_atoms, not of to_add_atoms"),
    M("machineio-addtwice-single-template", "MachineIO", "QModel/MachineIO.lean",
      "{ s.obj r with toAdd := some (s.ctx.template ++ s.ctx.template) }) ps",
      "{ s.obj r with toAdd := some s.ctx.template }) ps",
      ["C05"], "a pre-selected to_add_atoms of another size than exchange_atoms is replaced by the template (size ignored)"),

    # ---- Calc / CalcAlias (C04)
    M("calc-grand-revert-keeps-snapshot", "Calc", "QModel/Calc.lean",
      "| .grand => { c with results := lastResults, snap := some a }",
      "| .grand => { c with results := lastResults }",
      ["C04"], "GrandCanonical.revert_state puts the results back but not calc.atoms = atoms.copy()"),
    M("calc-compare-atoms-ignores-cell", "Calc", "QModel/Calc.lean",
      "(decide (positions sn.rows ≠ positions a.rows) || nums || decide (sn.cell ≠ a.cell)\n        ||",
      "(decide (positions sn.rows ≠ positions a.rows) || nums\n        ||",
      ["C04"], "compare_atoms: a changed cell does not count as a change (dropped term)"),
    M("calcalias-reject-keeps-current-ref", "CalcAlias", "QModel/CalcAlias.lean",
      "else (r.1, { cs := r.2, x := { x1 with ref := x1.lastRef } })",
      "else (r.1, { cs := r.2, x := x1 })",
      ["C04"], "rejected trial: calc.results['forces'] is not pointed back at last_results['forces']"),
    M("calcalias-detach-wrong-branch", "CalcAlias", "QModel/CalcAlias.lean",
      "if fixed then .own (deref buf r) else r",
      "if fixed then r else .own (deref buf r)",
      ["C04"], "detach_results: copies when NOT fixed and aliases when fixed (wrong branch)"),
    # second pass: result-array ownership
    M("calcalias-inplace-hands-out-fresh-array", "CalcAlias", "QModel/CalcAlias.lean",
      "else if inplace then { x with buf := forcesOf a, ref := some .buffer }",
      "else if inplace then { x with buf := forcesOf a, ref := some (.own (forcesOf a)) }",
      ["C04"], "aliasAfter: an in-place calculator (EMT) modelled as handing out a fresh array with every calculation"),
    M("calcalias-calculation-overwrites-last-ref", "CalcAlias", "QModel/CalcAlias.lean",
      "  else { x with ref := some (.own (forcesOf a)) }",
      "  else { x with ref := some (.own (forcesOf a)), lastRef := some (.own (forcesOf a)) }",
      ["C04"], "aliasAfter: every calculation also replaces what context.last_results['forces'] refers to"),
    M("calcalias-accept-keeps-old-last-ref", "CalcAlias", "QModel/CalcAlias.lean",
      "(r.1, { cs := r.2, x := { x2 with ref := ref, lastRef := ref } })",
      "(r.1, { cs := r.2, x := { x2 with ref := ref } })",
      ["C04"], "atrial: an accepted trial does not update last_results['forces'] (save_state forgets the arrays)"),
    M("calcalias-validate-forgets-last-ref", "CalcAlias", "QModel/CalcAlias.lean",
      "{ cs := cvalidate sim s.cs, x := { x1 with ref := r, lastRef := r } }",
      "{ cs := cvalidate sim s.cs, x := { x1 with ref := r } }",
      ["C04"], "avalidate: validate_simulation() does not remember the result arrays (last_results['forces'] stays unset)"),

    # ---- Criteria (C02; the C01 theorems are about the same definitions)
    M("crit-accept-le", "Criteria", "QModel/Criteria.lean",
      "if (Num.zero : α) ≤ e then true else decide (u < Num.exp e)",
      "if (Num.zero : α) ≤ e then true else decide (u ≤ Num.exp e)",
      ["C02"], "_metropolis: u <= exp(e) instead of u < exp(e)"),
    M("crit-isobaric-N-not-N-plus-1", "Criteria", "QModel/Criteria.lean",
      "-(dE + P * (Vnew - Vold)) / kT + Num.ofNat (N + 1) * Num.log (Vnew / Vold)",
      "-(dE + P * (Vnew - Vold)) / kT + Num.ofNat N * Num.log (Vnew / Vold)",
      ["C02", "C01"], "isobaric exponent: N ln(V'/V) instead of (N+1) ln(V'/V)"),
    M("crit-gc-factorial-range-off-by-one", "Criteria", "QModel/Criteria.lean",
      "if 0 < δ then divLoop Num.one ((N : Int) + 1) δ.toNat",
      "if 0 < δ then divLoop Num.one (N : Int) δ.toNat",
      ["C02", "C01"], "grand-canonical factorial term for insertions: range(N, N+δ) instead of range(N+1, N+δ+1)"),
    M("crit-hamiltonian-kinetic-sign", "Criteria", "QModel/Criteria.lean",
      "canonicalExponent (t.energy - c.lastPotentialEnergy - c.lastKineticEnergy) (c.temperature * k.kB)",
      "canonicalExponent (t.energy - c.lastPotentialEnergy + c.lastKineticEnergy) (c.temperature * k.kB)",
      ["C02"], "Hamiltonian criteria: last kinetic energy added instead of subtracted (sign)"),

    # ---- Metropolis (C01: theorems only, no model lines)
    M("metro-leave-counts-self-proposals", "Metropolis", "QModel/Metropolis.lean",
      "sumTo n (fun z => if z = x then 0 else q x z * a x z)",
      "sumTo n (fun z => q x z * a x z)",
      ["C01"], "probability of leaving x also counts accepted self-proposals (the diagonal loses mass)"),
    M("metro-decide-trial-le", "Metropolis", "QModel/Metropolis.lean",
      "def decideTrial (a : Nat → Nat → α) (x y : Nat) (u : α) : Nat := if u < a x y then y else x",
      "def decideTrial (a : Nat → Nat → α) (x y : Nat) (u : α) : Nat := if a x y < u then x else y",
      ["C01"], "decision of a trial: moves when u <= a(x,y) instead of u < a(x,y)"),

    # ---- Ops incl. moveLoop (C10)
    M("ops-moveloop-retries-same-translation", "Ops", "QModel/Ops.lean",
      "| k + 1, t :: ts, c :: cs => if c then some t else moveLoop k ts cs",
      "| k + 1, t :: ts, c :: cs => if c then some t else moveLoop k (t :: ts.tail) cs",
      ["C10"], "retry loop: the translation list is not advanced in step with the attempts (second attempt's draw skipped)"),
    M("ops-moveloop-keeps-last-vetoed-attempt", "Ops", "QModel/Ops.lean",
      "| k + 1, t :: ts, c :: cs => if c then some t else moveLoop k ts cs",
      "| k + 1, t :: ts, c :: cs => if c then some t else if k = 0 then some t else moveLoop k ts cs",
      ["C10"], "retry loop: after max_attempts vetoes the last trial displacement is kept instead of 'move failed'"),
    M("ops-sphere-cos-range", "Ops", "QModel/Ops.lean",
      "let c := uniform (-Num.one) Num.one u2",
      "let c := uniform Num.zero Num.one u2",
      ["C10"], "Sphere: cos(theta) drawn from [0,1) instead of [-1,1) (upper hemisphere only)"),
    M("ops-shape-mean-over-two", "Ops", "QModel/Ops.lean",
      "let mean := (c1 + c2 + c3) / Num.ofNat 3",
      "let mean := (c1 + c2 + c3) / Num.ofNat 2",
      ["C10"], "ShapeDeformation: generator not traceless (mean over 2 instead of 3)"),
    M("ops-translation-forgets-centroid", "Ops", "QModel/Ops.lean",
      "(centroid ps)\n\n/-- the rotation matrix",
      "(vzero)\n\n/-- the rotation matrix",
      ["C10"], "Translation: the group's centroid is not subtracted (dropped term)"),

    # ---- Sched / Rng (C09)
    M("sched-due-off-by-one", "Sched", "QModel/Sched.lean",
      "t.filter (fun e => step % e.interval == 0)",
      "t.filter (fun e => (step + 1) % e.interval == 0)",
      ["C09"], "a move is due when (step_count+1) % interval == 0 (off by one)"),
    M("sched-addmove-guard-ge", "Sched", "QModel/Sched.lean",
      "if minSum t + e.minCount > maxCycles then .error .overcommit",
      "if minSum t + e.minCount ≥ maxCycles then .error .overcommit",
      ["C09"], "add_move guard: >= max_cycles instead of > max_cycles"),
    M("sched-lookup-first-wins", "Sched", "QModel/Sched.lean",
      "    match lookupLast i rest with\n    | some b' => some b'\n    | none => if j = i then some b else none",
      "    if j = i then some b else lookupLast i rest",
      ["C09"], "dict(zip(slots, forced))[i]: the FIRST pair with key i wins instead of the last"),
    M("rng-searchsorted-side-left", "Rng", "QModel/Rng.lean",
      "| p :: ps, acc, u => if u < acc + p then 0 else searchCum ps (acc + p) u + 1",
      "| p :: ps, acc, u => if u ≤ acc + p then 0 else searchCum ps (acc + p) u + 1",
      ["C09"], "searchsorted side='left' instead of side='right' (<= vs <)"),
    M("rng-sample-with-replacement", "Rng", "QModel/Rng.lean",
      "match sampleFrom (rem.eraseIdx (index u rem.length)) k s with",
      "match sampleFrom rem k s with",
      ["C09"], "choice(replace=False): the drawn element is not removed from the pool"),

    # ---- Seed (C06)
    M("seed-fixed-ctor-zero-falsy", "Seed", "QModel/Seed.lean",
      "  match seed with\n  | some n => n\n",
      "  match seed with\n  | some n => if n = 0 then fresh else n\n",
      ["C06"], "the FIXED constructor still treats seed=0 as 'no seed'"),
    M("seed-criterion-draw-not-consumed", "Seed", "QModel/Seed.lean",
      "let s2 : MM.State := { r.2 with inp := u.2 }",
      "let s2 : MM.State := { r.2 with inp := r.2.inp }",
      ["C06"], "the criterion's uniform number is read but not popped from the stream"),
    M("seed-select-entry-ignores-draw", "Seed", "QModel/Seed.lean",
      "(some ((e :: es).getD (d.1 % (e :: es).length) e), { s with inp := d.2 })",
      "(some e, { s with inp := d.2 })",
      ["C06"], "the table entry is always the first one (the selecting draw is popped but not used)"),

    # ---- Serial / PyImport (C07, C08)
    M("serial-restore-constructor-wins", "Serial", "QModel/Serial.lean",
      "((srcCx c cx s <|> srcAt c at_ s <|> srcTop c tp s <|> srcKw scale kw s).getD (dflt c s))",
      "((srcKw scale kw s <|> srcCx c cx s <|> srcAt c at_ s <|> srcTop c tp s).getD (dflt c s))",
      ["C08", "C07"], "from_dict: the constructor value wins over attributes/context (wrong order of the sources)"),
    M("serial-attributes-set-on-context-too", "Serial", "QModel/Serial.lean",
      "if c.impl.setsAttributes && !s.onCtx then at_.lookup s.attr else none",
      "if c.impl.setsAttributes then at_.lookup s.attr else none",
      ["C08", "C07"], "setattr of `attributes` also reaches settings that live on the context"),
    M("serial-todict-alias-resolved-dynamically", "Serial", "QModel/Serial.lean",
      "| some (_, .aliasOf owner) => (resolveToDictFrom owner c.mro).map (·.emits)",
      "| some (_, .aliasOf _) => keysViaToDict c",
      ["C07"], "`todict = to_dict` in a class body treated as late-bound (overrides in subclasses NOT bypassed)"),
    M("serial-movestorage-sets-attributes", "Serial", "QModel/Serial.lean",
      "  | .moveStorage | .unknown => false\n  | _ => true\ndef Impl.readsContext",
      "  | .unknown => false\n  | _ => true\ndef Impl.readsContext",
      ["C08"], "MoveStorage.from_dict modelled as applying `attributes` like the other from_dict implementations"),
    M("pyimport-partial-module-has-every-name", "PyImport", "QModel/PyImport.lean",
      "if acc.isBound m nx.1 then pure (acc.bindName p nx.2.2)",
      "if acc.isBound m nx.1 || acc.has m then pure (acc.bindName p nx.2.2)",
      ["C08"], "`from M import x` succeeds whenever M is in sys.modules (partial initialisation ignored)"),
    M("pyimport-module-entered-after-body", "PyImport", "QModel/PyImport.lean",
      "execStmt (importMod fuel g) m s acc) (st.enter m)",
      "execStmt (importMod fuel g) m s acc) st",
      ["C08"], "the module is not put into sys.modules before its body runs"),
    # second pass: the registry after `import m; import quansino.mc`
    M("pyimport-registered-ignores-later-imports", "PyImport", "QModel/PyImport.lean",
      "(first : Chain) (then_ : List Chain) : List Nat :=\n  match (first :: then_).foldlM",
      "(first : Chain) (then_ : List Chain) : List Nat :=\n  match [first].foldlM",
      ["C08"], "registeredAfter: only the module imported FIRST counts, the following `import quansino.mc` is ignored"),
    M("pyimport-finish-never-marks-loaded", "PyImport", "QModel/PyImport.lean",
      "{ s with mods := s.mods.map (fun p => if p.1 == m then (p.1, true) else p) }",
      "{ s with mods := s.mods.map (fun p => if p.1 == m then (p.1, p.2) else p) }",
      ["C08"], "a module whose body has finished is never marked as loaded (no registration statement counts as run)"),

    # ---- Constraints / FixRot (C12)
    M("constr-fixatoms-momenta-untouched", "Constraints", "QModel/Constraints.lean",
      "adjMom _ p := Arr.tab fun i k => if fixed i then Num.zero else p i k",
      "adjMom _ p := Arr.tab p",
      ["C12"], "FixAtoms.adjust_momenta does nothing (momenta of fixed atoms not zeroed)"),
    M("constr-fixcom-momenta-unweighted", "Constraints", "QModel/Constraints.lean",
      "Arr.tab fun i k => p i k - m i * vcom.get k",
      "Arr.tab fun i k => p i k - vcom.get k",
      ["C12"], "FixCom.adjust_momenta: the mass factor is dropped"),
    M("constr-rejected-disp-keeps-trial", "Constraints", "QModel/Constraints.lean",
      "else { s with q := s.lastQ }  ",
      "else { s with q := r.2 }  ",
      ["C12"], "rejected displacement trial keeps the trial positions (revert_state forgotten)"),
    # second pass: ForceBias with the driver's own mass table
    M("constr-fb-momenta-from-atom-masses", "Constraints", "QModel/Constraints.lean",
      "let p' := Tab.get (setMomenta c true s.q (fun i k => shaped i k * disp i k))",
      "let p' := Tab.get (setMomenta c true s.q (fun i k => m i * disp i k))",
      ["C12"], "ForceBias.step: momenta set from the ATOMS' masses instead of the driver's shaped_masses table"),
    M("constr-fb-divides-by-atom-masses", "Constraints", "QModel/Constraints.lean",
      "(fun i k => s.q i k + p' i k / shaped i k))",
      "(fun i k => s.q i k + p' i k / m i))",
      ["C12"], "ForceBias.step: corrected displacement = momenta / atoms' masses instead of / shaped_masses"),
    M("fixrot-correction-sign", "FixRot", "QModel/FixRot.lean",
      "Arr.tab fun i k => p i k - cross w.get (r i) k * m i",
      "Arr.tab fun i k => p i k + cross w.get (r i) k * m i",
      ["C12"], "FixRot.adjust_momenta: correction added instead of subtracted"),
    M("vecfn-cross-second-component-sign", "VecFn", "QModel/VecFn.lean",
      "mk3 (u 1 * v 2 - u 2 * v 1) (u 2 * v 0 - u 0 * v 2) (u 0 * v 1 - u 1 * v 0)",
      "mk3 (u 1 * v 2 - u 2 * v 1) (u 0 * v 2 - u 2 * v 0) (u 0 * v 1 - u 1 * v 0)",
      ["C12"], "np.cross: second component with the wrong sign (only FixRot uses cross)"),

    # ---- FBMC (C13)
    M("fbmc-redraw-u-offset", "FBMC", "QModel/FBMC.lean",
      "else { c with zeta := d p, u := d (p + k) } :: redraw d k (p + 1) cs",
      "else { c with zeta := d p, u := d (p + 1) } :: redraw d k (p + 2) cs",
      ["C13"], "rejection loop: zeta and u drawn interleaved per coordinate instead of block-wise (wrong order of draws)"),
    M("fbmc-gamma-factor-two-dropped", "FBMC", "QModel/FBMC.lean",
      "clip ((F * δ) / (Num.two * kT)) (-gammaMax) gammaMax",
      "clip ((F * δ) / kT) (-gammaMax) gammaMax",
      ["C13"], "gamma = F·delta/(kT) instead of F·delta/(2kT)"),
    M("fbmc-trialprob-zero-denominator-branch", "FBMC", "QModel/FBMC.lean",
      "if Ops.neb den Num.zero then pt / den else Num.one",
      "if Ops.neb den Num.zero then pt / den else Num.zero",
      ["C13"], "trial probability for a zero denominator: 0 instead of 1 (np.divide out=ones)"),

    # ---- Verlet / VecFn (C14)
    M("verlet-second-kick-full", "Verlet", "QModel/Verlet.lean",
      "newMomenta i k + Num.half * forces' i k * dt",
      "newMomenta i k + forces' i k * dt",
      ["C14"], "second half-kick applied with the full time step (dropped 0.5)"),
    M("verlet-forces-at-old-positions", "Verlet", "QModel/Verlet.lean",
      "let forces' : Arr n α := Tab.get (getForces c F q')",
      "let forces' : Arr n α := Tab.get (getForces c F positions)",
      ["C14"], "forces for the second half-kick evaluated at the OLD positions"),
    M("verlet-veto-keeps-momenta", "Verlet", "QModel/Verlet.lean",
      "{ c2 with q := old.q, p := old.p, lastKE := reference, calcAt := c2.lastResults }",
      "{ c2 with q := old.q, lastKE := reference, calcAt := c2.lastResults }",
      ["C14"], "vetoed Hamiltonian attempt: positions restored, momenta not (a restored field forgotten)"),
    M("verlet-veto-keeps-abandoned-kinetic-energy", "Verlet", "QModel/Verlet.lean",
      "{ c2 with q := old.q, p := old.p, lastKE := reference, calcAt := c2.lastResults }",
      "{ c2 with q := old.q, p := old.p, calcAt := c2.lastResults }",
      ["C14"], "vetoed Hamiltonian attempt: the kinetic energy of the abandoned draw stays as reference"),
    M("verlet-reference-not-carried", "Verlet", "QModel/Verlet.lean",
      "{ c with p := p, lastKE := (reference - start) + ekin g.m p }",
      "{ c with p := p, lastKE := ekin g.m p }",
      ["C14"], "a Hamiltonian member overwrites the kinetic reference instead of replacing its own share (ham * 2)"),
    M("vecfn-sumall-skips-z", "VecFn", "QModel/VecFn.lean",
      "def sumAll (a : Arr n α) : α := sumFin (fun i => sumFin (fun k => a i k))",
      "def sumAll (a : Arr n α) : α := sumFin (fun i => a i 0 + a i 1)",
      ["C14"], "np.sum over an (n,3) array forgets the z column (kinetic energy, harmonic energy)"),

    # ---- RunLoop (C15)
    M("runloop-fires-zero-interval", "RunLoop", "QModel/RunLoop.lean",
      "(decide (interval > 0) && ((k : Int) % interval == 0)) ||",
      "(decide (interval ≥ 0) && ((k : Int) % interval == 0)) ||",
      ["C15"], "observer schedule: interval >= 0 instead of > 0 (an interval of 0 fires at step 0)"),
    M("runloop-observers-before-increment", "RunLoop", "QModel/RunLoop.lean",
      "callObservers cfg { s1 with stepCount := s1.stepCount + 1 }",
      "{ callObservers cfg s1 with stepCount := s1.stepCount + 1 }",
      ["C15"], "call_observers runs BEFORE step_count += 1 (wrong order)"),
    M("runloop-fixed-loop-forgets-started", "RunLoop", "QModel/RunLoop.lean",
      "| .fixed => callObservers cfg (writeHeader cfg { s with started := true })",
      "| .fixed => callObservers cfg (writeHeader cfg s)",
      ["C15"], "the repaired loop never sets _started (step-0 block repeats like in the pinned tree)"),

    # ---- Files (C16)
    M("files-append-lands-at-position", "Files", "QModel/Files.lean",
      "def landing (f : File β) : Nat := if f.append then f.disk.length else f.pos",
      "def landing (f : File β) : Nat := f.pos",
      ["C16"], "O_APPEND ignored: in mode 'a' a write after seek(0) lands at the position, not at the end"),
    M("files-truncate-without-flush", "Files", "QModel/Files.lean",
      "  let g := flush f\n  { g with disk := g.disk.take g.pos",
      "  let g := f\n  { g with disk := g.disk.take g.pos",
      ["C16"], "truncate() does not flush the pending bytes first"),
    M("files-open-w-keeps-content", "Files", "QModel/Files.lean",
      "| .w => { disk := [], pending := [], pos := 0, append := false }",
      "| .w => { disk := existing, pending := [], pos := 0, append := false }",
      ["C16"], "open(path, 'w') does not empty the file"),
    # second pass: the `open=` token (disk right after open)
    M("files-open-a-drops-content", "Files", "QModel/Files.lean",
      "| .a => { disk := existing, pending := [], pos := existing.length, append := true }",
      "| .a => { disk := [], pending := [], pos := 0, append := true }",
      ["C16"], "open(path, 'a') starts from an empty file (existing content lost)"),
    M("filesio-open-token-echoes-input", "FilesIO", "QModel/FilesIO.lean",
      "(\"open=\" ++ hex (openFile m e).disk)",
      "(\"open=\" ++ hex e)",
      ["C16"], "wire layer: the `open=` token repeats the existing content given on the line instead of openFile's disk"),

    M("files-link-restart-accepts-streams", "Files", "QModel/Files.lean",
      "else if !acceptStream && !a.seekable then .notSeekable",
      "else if false && !a.seekable then .notSeekable",
      ["C16"], "the restart observer links what cannot seek"),
    M("files-link-seek-attribute-ignored", "Files", "QModel/Files.lean",
      "| none => a.hasSeek",
      "| none => false",
      ["C16"], "an object without seekable() but with seek() counts as not seekable"),
    # ---- ArrayNames (C03, arrays an insertion brings)
    M("arrn-revert-keeps-foreign-arrays", "ArrayNames", "QModel/ArrayNames.lean",
      "  | some keep => { sys := dropOthers s.sys keep, saved := none }",
      "  | some _ => { sys := s.sys, saved := none }",
      ["C03"], "revert_state leaves the arrays an inserted species brought"),
    M("arrn-veto-keeps-foreign-arrays", "ArrayNames", "QModel/ArrayNames.lean",
      "  else (false, { s with sys := dropOthers sys1 before })",
      "  else (false, { s with sys := sys1 })",
      ["C03"], "a vetoed placement leaves the arrays of the species on the system"),
    M("arrn-last-writer-wins", "ArrayNames", "QModel/ArrayNames.lean",
      "saved := match s.saved with | some k => some k | none => some before })",
      "saved := some before })",
      ["C03"], "save_array_names overwrites what an earlier insertion of the same trial remembered"),
    # ---- LogTable (C16, the logger's field table)
    M("logt-center-pad-swapped", "LogTable", "QModel/LogTable.lean",
      "| .center => spaces (n / 2) ++ s ++ spaces (n - n / 2)",
      "| .center => spaces (n - n / 2) ++ s ++ spaces (n / 2)",
      ["C16"], "`^` alignment puts the odd blank on the left"),
    M("logt-readd-moves-to-end", "LogTable", "QModel/LogTable.lean",
      "| g :: r => if g.key = f.key then f :: r else g :: upsert f r",
      "| g :: r => if g.key = f.key then r ++ [f] else g :: upsert f r",
      ["C16"], "a field added again under its name moves to the end of the table"),
    M("logt-auto-header-default-width", "LogTable", "QModel/LogTable.lean",
      "some (sp.width.getD 10), .str⟩",
      "some (sp.width.getD 12), .str⟩",
      ["C16"], "get_auto_header_format: a placeholder without width is headed 12 wide"),
    M("logt-array-header-not-filled", "LogTable", "QModel/LogTable.lean",
      "List.replicate (holes f.headerFormat - f.key.names.length) []",
      "List.replicate 0 []",
      ["C16"], "an array field with fewer names than columns is not filled up with blanks (IndexError)"),
    M("logt-remove-matches-whole-name", "LogTable", "QModel/LogTable.lean",
      "!f.key.names.any (containsStr p)",
      "!f.key.names.any (· == p)",
      ["C16"], "remove_fields removes only fields named exactly like the pattern"),
    # ---- Algebra (C17)
    M("alg-leaf-plus-composite-appends", "Algebra", "QModel/Algebra.lean",
      "if (kind a).cmt = t then .comp (kind a).cmt (a :: ms) else .comp .plain (a :: ms)",
      "if (kind a).cmt = t then .comp (kind a).cmt (ms ++ [a]) else .comp .plain (a :: ms)",
      ["C17"], "leaf + composite of the same type: the leaf goes to the END (wrong order)"),
    M("alg-mul-zero-allowed", "Algebra", "QModel/Algebra.lean",
      "| .base a, n => if n < 1 then .error .badCount else .ok (.comp (kind a).cmt (List.replicate n.toNat a))",
      "| .base a, n => if n < 0 then .error .badCount else .ok (.comp (kind a).cmt (List.replicate n.toNat a))",
      ["C17"], "move * 0 accepted (n < 0 instead of n < 1)"),
    M("alg-composite-mixed-keeps-left-type", "Algebra", "QModel/Algebra.lean",
      "if t = t' then .comp t (ms ++ ms') else .comp .plain (ms ++ ms')",
      "if t = t' then .comp t (ms ++ ms') else .comp t (ms ++ ms')",
      ["C17"], "composite + composite of different classes keeps the left class instead of plain CompositeMove"),

    # ---- Adaptive (C18)
    M("adaptive-std-ddof-one", "Adaptive", "QModel/Adaptive.lean",
      "Num.sqrt (sum (l.map (fun x => (x - m) * (x - m))) / Num.ofNat l.length)",
      "Num.sqrt (sum (l.map (fun x => (x - m) * (x - m))) / Num.ofNat (l.length - 1))",
      ["C18"], "np.std with ddof=1 (sample) instead of ddof=0 (population) for the committee forces"),
    M("adaptive-energy-coef-not-per-atom", "Adaptive", "QModel/Adaptive.lean",
      "| some es => std1 es / Num.ofNat natoms",
      "| some es => std1 es",
      ["C18"], "energy variation coefficient not divided by len(atoms)"),
    M("adaptive-delta-swapped-bounds", "Adaptive", "QModel/Adaptive.lean",
      "def delta (dmin dmax f : α) : α := dmin + (dmax - dmin) * f",
      "def delta (dmin dmax f : α) : α := dmax + (dmin - dmax) * f",
      ["C18"], "delta interpolates from max_delta down instead of from min_delta up (swapped bounds)"),

    # ---- Atoms (C19)
    M("atoms-scatter-first-assignment-wins", "Atoms", "QModel/Atoms.lean",
      "    match scatterGet is xs k with\n    | some y => some y\n    | none => if i = k then some x else none",
      "    if i = k then some x else scatterGet is xs k",
      ["C19"], "new[idx] = taken with a repeated index: the FIRST assignment wins instead of the last"),
    M("atoms-cast-to-bool-identity", "Atoms", "QModel/Atoms.lean",
      "| .b1 => if v = 0 then 0 else 1",
      "| .b1 => v",
      ["C19"], "assignment into a bool array keeps the integer value (numpy casts to 0/1)"),
    M("atoms-admitted-upper-strict", "Atoms", "QModel/Atoms.lean",
      "r.1 ≤ (c.length : Int) ∧ (c.length : Int) ≤ r.2",
      "r.1 ≤ (c.length : Int) ∧ (c.length : Int) < r.2",
      ["C19"], "search_molecules: size < upper bound instead of <= upper bound"),
    M("atoms-addcol-fill-one", "Atoms", "QModel/Atoms.lean",
      "(scatterGet nidx rows k).getD (List.replicate (width t.shape) 0) }",
      "(scatterGet nidx rows k).getD (List.replicate (width t.shape) 1) }",
      ["C19"], "an array only present in the re-inserted atoms is created one-filled instead of zero-filled"),
    # second pass: connected components computed inside the model (Graph.lean)
    M("graph-adj-one-direction", "Graph", "QModel/Graph.lean",
      "pairs.any fun p => (p.1 == i && p.2 == j) || (p.1 == j && p.2 == i)",
      "pairs.any fun p => (p.1 == i && p.2 == j)",
      ["C19"], "adjacency not symmetrised: a listed pair (i, j) bonds i to j but not j to i"),
    M("graph-expand-drops-members", "Graph", "QModel/Graph.lean",
      "(List.range n).filter fun j => s.any fun i => i == j || adjB pairs i j",
      "(List.range n).filter fun j => s.any fun i => adjB pairs i j",
      ["C19"], "one expansion round keeps only the NEIGHBOURS of the set, not the set itself"),
    M("graph-reach-one-round-short", "Graph", "QModel/Graph.lean",
      "def reach (n : Nat) (pairs : List (Nat × Nat)) (i : Nat) : List Nat := expandN n pairs n [i]",
      "def reach (n : Nat) (pairs : List (Nat × Nat)) (i : Nat) : List Nat := expandN n pairs (n - 1) [i]",
      ["C19"], "n-1 expansion rounds instead of n (a path needs at most n-1 bonds: expected EQUIVALENT, slack of the model)"),
    M("graph-reach-two-rounds-short", "Graph", "QModel/Graph.lean",
      "def reach (n : Nat) (pairs : List (Nat × Nat)) (i : Nat) : List Nat := expandN n pairs n [i]",
      "def reach (n : Nat) (pairs : List (Nat × Nat)) (i : Nat) : List Nat := expandN n pairs (n - 2) [i]",
      ["C19"], "n-2 expansion rounds: a chain through ALL atoms entered at one end is cut one atom short"),
    M("graph-seen-not-updated", "Graph", "QModel/Graph.lean",
      "else reach n pairs i :: compsFrom n pairs rest (reach n pairs i ++ seen)",
      "else reach n pairs i :: compsFrom n pairs rest seen",
      ["C19"], "networkx loop: `seen.update(c)` forgotten (every member of a component yields the component again)"),
    M("graph-components-largest-member-first", "Graph", "QModel/Graph.lean",
      "compsFrom n pairs (List.range n) []",
      "compsFrom n pairs (List.range n).reverse []",
      ["C19"], "components listed in the order of their LARGEST member instead of the smallest (node loop reversed)"),

    # ---- Protocol (C20)
    M("proto-cell-notification-unconditional", "Protocol", "QModel/Protocol.lean",
      "| .isobaric | .isotension => if t.cellChanged then table.map Ev.cellChanged else []",
      "| .isobaric | .isotension => table.map Ev.cellChanged",
      ["C20"], "isobaric save_state notifies on_cell_changed even when the cell did not change"),
    M("proto-grand-notifies-scheduled-move-only", "Protocol", "QModel/Protocol.lean",
      "| .grand => table.map (fun u => Ev.atomsChanged u t.added t.removed)",
      "| .grand => [Ev.atomsChanged t.move t.added t.removed]",
      ["C20"], "grand canonical save_state notifies only the scheduled move, not every move of the table"),
    M("proto-history-entry-on-failure", "Protocol", "QModel/Protocol.lean",
      "if t.truthy then some t.accepted else none",
      "if t.truthy then some t.accepted else some false",
      ["C20"], "a move that did not happen is recorded as rejected instead of 'not attempted'"),
]


# ----------------------------------------------------------------------------------------------------------------
# runner
# ----------------------------------------------------------------------------------------------------------------
SUMMARY = re.compile(
    r"^(C\d\d) tier=(\w+) seed=(\d+) obligations=(\d+) discharged=(\d+) cases=(\d+) distinct=(\d+) "
    r"disagreements=(\d+) violations=(\d+) known=(\d+) wall=([\d.]+)s -> exit (\d+)\s*$"
)


def apply_mutation(root: Path, mut: dict) -> None:
    p = root / mut["file"]
    src = p.read_text()
    n = src.count(mut["old"])
    if n != 1:
        raise SystemExit(f"MUTANT {mut['name']}: `old` occurs {n} times in {mut['file']} (must be exactly 1)")
    if mut["old"] == mut["new"]:
        raise SystemExit(f"MUTANT {mut['name']}: old == new")
    p.write_text(src.replace(mut["old"], mut["new"]))


def model_only_build(lean_dir: Path) -> tuple[bool, str]:
    """does the mutated MODEL itself still compile (QModel + QGen, no theorems)?"""
    r = subprocess.run(["lake", "build", "QModel", "QGen"], cwd=lean_dir, capture_output=True, text=True, timeout=3000)
    return r.returncode == 0, (r.stdout + r.stderr)[-3000:]


def run_one(mut: dict, prop: str, work: Path, keep: bool, timeout: float) -> dict:
    t0 = time.time()
    d = work / f"{mut['name']}-{prop}"
    if d.exists():
        shutil.rmtree(d)
    d.mkdir(parents=True)
    lean_copy = d / "lean"
    rec = {"mutant": mut["name"], "area": mut["area"], "file": mut["file"], "property": prop, "why": mut["why"],
           "old": mut["old"], "new": mut["new"]}
    try:
        # cp -a keeps the time stamps, so lake only rebuilds what depends on the touched module
        subprocess.run(["cp", "-a", str(LEAN), str(lean_copy)], check=True)
        if mut["file"] is not None:  # `file=None` = the unchanged model (control run)
            apply_mutation(lean_copy, mut)
        ok, log = model_only_build(lean_copy)
        rec["model_builds"] = ok
        if not ok:
            rec["model_build_log"] = log
        env = dict(os.environ)
        env.update(VERIF_LEAN_DIR=str(lean_copy), VERIF_EVIDENCE_DIR=str(d / "evidence"),
                   VERIF_REPLAY_DIR=str(d / "replays"))
        try:
            r = subprocess.run([PY, str(HERE / "qcheck.py"), prop, "--tier", "quick"], cwd=VERIF, env=env,
                               capture_output=True, text=True, timeout=timeout)
            out, err, code = r.stdout, r.stderr, r.returncode
        except subprocess.TimeoutExpired as e:
            out = (e.stdout or b"").decode() if isinstance(e.stdout, bytes) else (e.stdout or "")
            err, code = "runner time-out", 2
        lines = out.splitlines()
        rec["exit"] = code
        summ = next((ln for ln in reversed(lines) if SUMMARY.match(ln)), None)
        rec["summary"] = summ
        if summ:
            m = SUMMARY.match(summ)
            rec["obligations"], rec["discharged"] = int(m.group(4)), int(m.group(5))
            rec["cases"] = int(m.group(6))
            rec["disagreements"] = int(m.group(8))
            rec["input_violations"] = int(m.group(9))
        viol = [ln for ln in lines if ln.startswith("VIOLATION")]
        rec["violation_lines"] = viol
        rec["known_finding_lines"] = sum(1 for ln in lines if ln.startswith("KNOWN-FINDING"))
        bad = [ln for ln in viol if not ln.rstrip().endswith("no-failing-input-found")]
        rec["all_violations_suffixed"] = not bad
        rec["false_accusation"] = bool(bad)
        if bad:
            rec["false_accusation_replays"] = []
            for ln in bad:
                mm = re.search(r"replay=(\S+)", ln)
                if mm and Path(mm.group(1)).exists():
                    rec["false_accusation_replays"].append({"line": ln, "content": Path(mm.group(1)).read_text()[:20000]})
        # evidence: which theorems / suites broke
        ev = d / "evidence" / f"{prop}.json"
        if ev.exists():
            cov = json.loads(ev.read_text())["coverage"]
            th = cov.get("theorems", {})
            rec["theorems_total"] = len(th)
            rec["theorems_broken"] = sorted(t for t, a in th.items() if a is None)
            rec["suites_failed"] = sorted(s for s, ok_ in cov.get("correspondence_suites", {}).items() if not ok_)
            rec["suites_total"] = len(cov.get("correspondence_suites", {}))
            rec["notes"] = cov.get("notes", [])
        else:
            rec["theorems_broken"] = None
        # replay of the (single) obligation violation: what broke
        for ln in viol:
            mm = re.search(r"replay=(\S+)", ln)
            if mm and Path(mm.group(1)).exists():
                try:
                    pl = json.loads(Path(mm.group(1)).read_text())
                    b = pl.get("broken")
                    rec["replay_kind"] = pl.get("kind")
                    rec["replay_broken"] = b if isinstance(b, str) else {k: v for k, v in (b or {}).items() if k != "log"}
                    if "diffs" in pl:
                        rec["first_diffs"] = [str(x)[:300] for x in pl["diffs"][:3]]
                    if isinstance(b, dict) and b.get("log"):
                        errs = [x for x in b["log"].splitlines() if x.startswith("error")]
                        rec["lean_errors"] = errs[:4]
                except Exception as e:  # noqa: BLE001
                    rec["replay_parse_error"] = repr(e)
                break
        rec["theorems_broke"] = bool(rec.get("theorems_broken"))
        if code == 2 or summ is None:
            rec["tail"] = (out[-1500:] + "\n--- stderr ---\n" + err[-1500:])
        rec["noticed"] = code == 1
    except SystemExit:
        raise
    except Exception as e:  # noqa: BLE001
        rec["exit"] = 2
        rec["runner_error"] = repr(e)
        rec["noticed"] = False
    finally:
        rec["wall_s"] = round(time.time() - t0, 1)
        if not keep:
            shutil.rmtree(d, ignore_errors=True)
    return rec


def merge_results(new: list[dict]) -> list[dict]:
    old = json.loads(RESULTS.read_text()) if RESULTS.exists() else []
    key = lambda r: (r["mutant"], r["property"])  # noqa: E731
    names = {m["name"] for m in MUTANTS}
    d = {key(r): r for r in old if r["mutant"] in names}
    for r in new:
        d[key(r)] = r
    order = {m["name"]: i for i, m in enumerate(MUTANTS)}
    out = sorted(d.values(), key=lambda r: (order.get(r["mutant"], 999), r["property"]))
    RESULTS.write_text(json.dumps(out, indent=1, sort_keys=True))
    return out


def report_table(recs: list[dict]) -> str:
    """markdown table of the records (used for REPORT.md)"""
    rows = ["| mutant | file | property | exit | theorems broken | disagreements (suites) | notes |",
            "|---|---|---|---|---|---|---|"]
    for r in recs:
        th = r.get("theorems_broken")
        ths = "?" if th is None else (f"{len(th)}/{r.get('theorems_total')}" if th else "no")
        dis = r.get("disagreements")
        sf = ",".join(r.get("suites_failed") or [])
        note = "FALSE ACCUSATION" if r.get("false_accusation") else ("" if r.get("exit") == 1 else
                                                                     "NOT NOTICED" if r.get("exit") == 0 else "harness error")
        if r.get("model_builds") is False:
            note += " model does not compile"
        rows.append(f"| {r['mutant']} | {r['file'].replace('QModel/', '')} | {r['property']} | {r.get('exit')} | {ths} | "
                    f"{dis}{' (' + sf + ')' if sf else ''} | {note} |")
    return "\n".join(rows)


def main() -> int:
    ap = argparse.ArgumentParser()
    ap.add_argument("--only", default="")
    ap.add_argument("--jobs", type=int, default=4)
    ap.add_argument("--work", default=str(DEFAULT_WORK))
    ap.add_argument("--keep", action="store_true")
    ap.add_argument("--list", action="store_true")
    ap.add_argument("--check-apply", action="store_true")
    ap.add_argument("--check-build", action="store_true")
    ap.add_argument("--report", action="store_true", help="print the markdown table of modelmutants_results.json")
    ap.add_argument("--first-prop-only", action="store_true")
    ap.add_argument("--baseline", default="", help="control: run these checks (comma list, or 'all') on the UNCHANGED model copy")
    ap.add_argument("--timeout", type=float, default=1500)
    args = ap.parse_args()
    names = [m["name"] for m in MUTANTS]
    assert len(set(names)) == len(names), "duplicate mutant names"
    if args.report:
        print(report_table(json.loads(RESULTS.read_text())))
        return 0
    if args.list:
        for m in MUTANTS:
            print(f"{m['name']:48s} {m['file']:28s} {','.join(m['props']):12s} {m['why']}")
        print(len(MUTANTS), "mutants")
        return 0
    if args.baseline:
        props = [f"C{i:02d}" for i in range(1, 21)] if args.baseline == "all" else args.baseline.split(",")
        base = M("baseline", "-", None, "", "", props, "unchanged model (control)")
        work = Path(args.work)
        work.mkdir(parents=True, exist_ok=True)
        with cf.ThreadPoolExecutor(max_workers=min(4, max(1, args.jobs))) as ex:
            recs = list(ex.map(lambda p: run_one(base, p, work, args.keep, args.timeout), props))
        for r in recs:
            print(f"baseline {r['property']} exit={r.get('exit')} {r.get('summary')}")
        (Path(args.work).parent / "modelmutants_baseline.json").write_text(json.dumps(recs, indent=1, sort_keys=True))
        return 0 if all(r.get("exit") == 0 for r in recs) else 1
    sel = [m for m in MUTANTS if not args.only or m["name"] in args.only.split(",")]
    for m in sel:  # fail loudly before anything is run
        src = (LEAN / m["file"]).read_text()
        if src.count(m["old"]) != 1:
            raise SystemExit(f"MUTANT {m['name']}: `old` occurs {src.count(m['old'])} times in {m['file']}")
    if args.check_apply:
        print(f"{len(sel)} mutants apply cleanly")
        return 0
    if args.check_build:  # does every mutated MODEL still compile (theorems not built)?
        work = Path(args.work)
        work.mkdir(parents=True, exist_ok=True)

        def cb(m):
            d = work / f"build-{m['name']}"
            shutil.rmtree(d, ignore_errors=True)
            d.mkdir(parents=True)
            try:
                subprocess.run(["cp", "-a", str(LEAN), str(d / "lean")], check=True)
                apply_mutation(d / "lean", m)
                return m["name"], model_only_build(d / "lean")
            finally:
                shutil.rmtree(d, ignore_errors=True)

        bad = 0
        with cf.ThreadPoolExecutor(max_workers=4) as ex:
            for name, (ok, log) in ex.map(cb, sel):
                print(("ok   " if ok else "FAIL ") + name, flush=True)
                if not ok:
                    bad += 1
                    print("\n".join(x for x in log.splitlines() if "error" in x.lower())[:1500])
        return 1 if bad else 0
    jobs = [(m, p) for m in sel for p in (m["props"][:1] if args.first_prop_only else m["props"])]
    work = Path(args.work)
    work.mkdir(parents=True, exist_ok=True)
    recs = []
    with cf.ThreadPoolExecutor(max_workers=min(4, max(1, args.jobs))) as ex:
        futs = {ex.submit(run_one, m, p, work, args.keep, args.timeout): (m, p) for m, p in jobs}
        for f in cf.as_completed(futs):
            r = f.result()
            recs.append(r)
            flag = "FALSE-ACCUSATION" if r.get("false_accusation") else ("noticed" if r.get("noticed") else "NOT-NOTICED" if r.get("exit") == 0 else "ERROR")
            print(f"[{len(recs)}/{len(jobs)}] {r['mutant']} {r['property']} exit={r.get('exit')} {flag} "
                  f"thm_broken={len(r.get('theorems_broken') or [])}/{r.get('theorems_total')} "
                  f"disagreements={r.get('disagreements')} suites_failed={r.get('suites_failed')} wall={r['wall_s']}s",
                  flush=True)
            merge_results([r])
    bad = [r for r in recs if r.get("false_accusation")]
    return 3 if bad else 0


if __name__ == "__main__":
    sys.exit(main())
