"""Translator (DESIGN §3 T): the import graph of the live quansino sources -> lean/QGen/Imports.lean.

Every file under `src/quansino` is parsed with `ast`; per module the ordered top-level statements that
matter for the import system are kept:

    import m [as x]            -> Stmt.imp      (chain of package modules among the prefixes of m, bound name)
    from m import a, b         -> Stmt.fromImp  (chain to m, id of m if it is a module of the package,
                                                 per name: its id and the id of the sub-module m.a if any)
    from m import *            -> Stmt.fromStar
    def / class / assignment   -> Stmt.bind

`if TYPE_CHECKING:` bodies are dropped (their `else` is kept), the bodies of other `if`/`for`/`while`/
`with`/`try` statements are flattened in (both branches of an ordinary `if`: an over-approximation that
can only add imports), function and class bodies are not executed at import time and are dropped.
Relative imports are resolved to absolute names.  The output is deterministic (sorted), so an unchanged
tree gives a byte-identical file.

Usage:  gen_imports.py [--root SRC_DIR] [--out FILE]   (default root: the directory of the imported
`quansino` package, i.e. what `python -c "import quansino"` would use)
"""
from __future__ import annotations

import argparse
import ast
import os
import sys
from pathlib import Path

VERIF = Path(__file__).resolve().parent.parent
OUT = Path(os.environ.get("VERIF_LEAN_DIR", VERIF / "lean")) / "QGen" / "Imports.lean"


def source_root() -> Path:
    """directory that contains the `quansino` package which `import quansino` would load (no import done)"""
    import importlib.util

    spec = importlib.util.find_spec("quansino")
    if spec is None or not spec.submodule_search_locations:
        raise RuntimeError("quansino is not importable")
    return Path(list(spec.submodule_search_locations)[0]).resolve().parent


def discover(root: Path) -> dict[str, tuple[Path, bool]]:
    mods: dict[str, tuple[Path, bool]] = {}
    for dp, dn, fn in os.walk(root / "quansino"):
        dn[:] = sorted(d for d in dn if d != "__pycache__")
        for f in sorted(fn):
            if not f.endswith(".py"):
                continue
            path = Path(dp) / f
            rel = str(path.relative_to(root))[:-3].replace(os.sep, ".")
            ispkg = rel.endswith(".__init__")
            name = rel[: -len(".__init__")] if ispkg else rel
            mods[name] = (path, ispkg)
    return mods


def is_type_checking(test: ast.expr) -> bool:
    return (isinstance(test, ast.Name) and test.id == "TYPE_CHECKING") or (
        isinstance(test, ast.Attribute) and test.attr == "TYPE_CHECKING"
    )


def statements(name: str, path: Path, ispkg: bool) -> list[tuple]:
    """ordered import-relevant top-level statements of one module"""
    out: list[tuple] = []
    package = name if ispkg else name.rpartition(".")[0]

    def absolute(module: str | None, level: int) -> str:
        if level == 0:
            return module or ""
        base = package.split(".")
        if level > 1:
            base = base[: len(base) - (level - 1)]
        return ".".join(base + ([module] if module else []))

    def visit(body):
        for s in body:
            if isinstance(s, ast.Import):
                for a in s.names:
                    out.append(("import", a.name, a.asname or a.name.split(".")[0]))
            elif isinstance(s, ast.ImportFrom):
                m = absolute(s.module, s.level)
                if any(a.name == "*" for a in s.names):
                    out.append(("star", m))
                else:
                    out.append(("from", m, [(a.name, a.asname or a.name) for a in s.names]))
            elif isinstance(s, (ast.FunctionDef, ast.ClassDef, ast.AsyncFunctionDef)):
                out.append(("bind", s.name))
            elif isinstance(s, (ast.Assign, ast.AnnAssign, ast.AugAssign)):
                targets = s.targets if isinstance(s, ast.Assign) else [s.target]
                if isinstance(s, ast.AnnAssign) and s.value is None:
                    continue  # a bare annotation binds nothing
                for t in targets:
                    for n in ast.walk(t):
                        if isinstance(n, ast.Name):
                            out.append(("bind", n.id))
            elif isinstance(s, ast.If):
                if is_type_checking(s.test):
                    visit(s.orelse)
                else:
                    visit(s.body)
                    visit(s.orelse)
            elif isinstance(s, (ast.For, ast.While, ast.With, ast.AsyncWith, ast.AsyncFor)):
                visit(s.body)
                if hasattr(s, "orelse"):
                    visit(s.orelse)
                if isinstance(s, (ast.For, ast.AsyncFor)):
                    for n in ast.walk(s.target):
                        if isinstance(n, ast.Name):
                            out.append(("bind", n.id))
            elif isinstance(s, ast.Try):
                visit(s.body)
                visit(s.orelse)
                visit(s.finalbody)

    visit(ast.parse(path.read_text(), filename=str(path)).body)
    return out


def registrations(path: Path) -> list[str]:
    """names a module registers when its body runs: `register_class(X, "Name")` calls at top level, loops
    `for name, cls in D.items(): register_class(cls, name)` over a module-level dictionary literal D (its string keys),
    and `@register("Name")` / `@register()` decorators on top-level classes"""
    tree = ast.parse(path.read_text(), filename=str(path))
    dicts: dict[str, list[str]] = {}
    out: list[str] = []

    def callee(c: ast.Call) -> str:
        f = c.func
        return f.id if isinstance(f, ast.Name) else f.attr if isinstance(f, ast.Attribute) else ""

    for s in tree.body:
        tgt = None
        val = None
        if isinstance(s, ast.Assign) and len(s.targets) == 1 and isinstance(s.targets[0], ast.Name):
            tgt, val = s.targets[0].id, s.value
        elif isinstance(s, ast.AnnAssign) and isinstance(s.target, ast.Name) and s.value is not None:
            tgt, val = s.target.id, s.value
        if tgt and isinstance(val, ast.Dict):
            dicts[tgt] = [k.value for k in val.keys if isinstance(k, ast.Constant) and isinstance(k.value, str)]
        if isinstance(s, ast.Expr) and isinstance(s.value, ast.Call) and callee(s.value) == "register_class":
            a = s.value.args
            if len(a) >= 2 and isinstance(a[1], ast.Constant):
                out.append(str(a[1].value))
            elif len(a) == 1 and isinstance(a[0], ast.Name):
                out.append(a[0].id)
        if isinstance(s, ast.For) and isinstance(s.iter, ast.Call) and isinstance(s.iter.func, ast.Attribute) \
                and s.iter.func.attr == "items" and isinstance(s.iter.func.value, ast.Name):
            if any(isinstance(n, ast.Call) and callee(n) == "register_class" for b in s.body for n in ast.walk(b)):
                out.extend(dicts.get(s.iter.func.value.id, []))
        if isinstance(s, ast.ClassDef):
            for d in s.decorator_list:
                if isinstance(d, ast.Call) and callee(d) == "register":
                    out.append(str(d.args[0].value) if d.args and isinstance(d.args[0], ast.Constant) else s.name)
    return out


def is_public(name: str) -> bool:
    return not any(part.startswith("_") for part in name.split("."))


def build(root: Path) -> dict:
    mods = discover(root)
    names = sorted(mods)
    mid = {n: i for i, n in enumerate(names)}
    stmts = {n: statements(n, *mods[n]) for n in names}
    idents: set[str] = set()
    for n in names:
        idents.add(n.rpartition(".")[2])
        for st in stmts[n]:
            if st[0] == "import":
                idents.add(st[2])
            elif st[0] == "from":
                for orig, bound in st[2]:
                    idents.add(orig)
                    idents.add(bound)
            elif st[0] == "bind":
                idents.add(st[1])
    identl = sorted(idents)
    iid = {x: i for i, x in enumerate(identl)}

    def chain(m: str) -> list[int]:
        parts = m.split(".")
        out = []
        for i in range(1, len(parts) + 1):
            p = ".".join(parts[:i])
            if p not in mid:
                break  # the import system leaves the package here: assumed importable
            out.append(mid[p])
        return out

    graph = []
    for n in names:
        body = []
        for st in stmts[n]:
            if st[0] == "import":
                body.append(("imp", chain(st[1]), iid[st[2]], f"import {st[1]}"))
            elif st[0] == "from":
                m = st[1]
                nm = []
                for orig, bound in st[2]:
                    # `from m import a as b` needs `a` in m (or a sub-module m.a) and binds `b`
                    nm.append((iid[orig], mid.get(m + "." + orig), orig, bound))
                body.append(("from", chain(m), mid.get(m), nm, f"from {m} import {', '.join(o for o, _ in st[2])}"))
            elif st[0] == "star":
                body.append(("star", chain(st[1]), mid.get(st[1]), f"from {st[1]} import *"))
            else:
                body.append(("bind", iid[st[1]], st[1]))
        parent = n.rpartition(".")[0]
        graph.append({"name": n, "parent": (mid[parent], iid[n.rpartition(".")[2]]) if parent in mid else None,
                      "body": body, "ispkg": mods[n][1]})
    public = [mid[n] for n in names if is_public(n)]
    regs = {n: registrations(mods[n][0]) for n in names}
    regnames = sorted({x for v in regs.values() for x in v})
    return {"names": names, "idents": identl, "graph": graph, "public": public,
            "chains": [chain(n) for n in names], "regnames": regnames,
            "registers": [[regnames.index(x) for x in regs[n]] for n in names]}


def lean_opt(x) -> str:
    return "none" if x is None else f"(some {x})"


def lean_list(xs) -> str:
    return "[" + ", ".join(str(x) for x in xs) + "]"


def render(data: dict) -> str:
    L = []
    L.append("import QModel.PyImport")
    L.append("/-! GENERATED by harness/gen_imports.py from the `ast` of every file under src/quansino —")
    L.append("    do not edit; regenerated on every run of the C08 check. -/")
    L.append("namespace QGen")
    L.append("open PyImp")
    L.append("")
    L.append("def moduleNames : List String := [")
    L.append(",\n".join(f'  "{n}"' for n in data["names"]))
    L.append("]")
    L.append("")
    L.append("def identNames : List String := [")
    L.append(",\n".join(f'  "{n}"' for n in data["idents"]))
    L.append("]")
    L.append("")
    L.append("def graph : Graph := [")
    mods_txt = []
    for i, m in enumerate(data["graph"]):
        lines = [f"  -- {i}: {m['name']}" + (" (package)" if m["ispkg"] else "")]
        par = "none" if m["parent"] is None else f"(some ({m['parent'][0]}, {m['parent'][1]}))"
        body = []
        for st in m["body"]:
            if st[0] == "imp":
                body.append(f"    .imp {lean_list(st[1])} {st[2]}")
            elif st[0] == "from":
                nm = ", ".join(f"({a}, {lean_opt(b)}, {data['idents'].index(bound)})" for a, b, _, bound in st[3])
                body.append(f"    .fromImp {lean_list(st[1])} {lean_opt(st[2])} [{nm}]")
            elif st[0] == "star":
                body.append(f"    .fromStar {lean_list(st[1])} {lean_opt(st[2])}")
            else:
                body.append(f"    .bind {st[1]}")
        lines.append(f"  ⟨{par}, [")
        lines.append(",\n".join(body))
        lines.append("  ]⟩")
        mods_txt.append("\n".join(lines))
    L.append(",\n".join(mods_txt))
    L.append("]")
    L.append("")
    L.append("/-- per module: the package modules among the prefixes of its dotted name, in import order -/")
    L.append("def chains : List Chain := [")
    L.append(",\n".join(f"  {lean_list(c)}" for c in data["chains"]))
    L.append("]")
    L.append("")
    L.append("def chainOf (m : Nat) : Chain := chains.getD m []")
    L.append("")
    L.append("/-- every module whose dotted name has no component starting with `_` (packages included) -/")
    L.append(f"def publicModules : List Nat := {lean_list(data['public'])}")
    L.append("")
    L.append("/-- names that appear in a registration statement (`register_class`, `@register`) anywhere in the package -/")
    L.append("def registeredNames : List String := [")
    L.append(",\n".join(f'  "{n}"' for n in data["regnames"]))
    L.append("]")
    L.append("")
    L.append("/-- per module: the names (indices into `registeredNames`) its body registers -/")
    L.append("def registers : List (List Nat) := [")
    L.append(",\n".join(f"  {lean_list(r)}" for r in data["registers"]))
    L.append("]")
    L.append("")
    L.append("end QGen")
    return "\n".join(L) + "\n"


def generate(root: Path | None = None, out: Path | None = None) -> dict:
    root = root or source_root()
    data = build(root)
    text = render(data)
    out = out or OUT
    out.parent.mkdir(parents=True, exist_ok=True)
    if not out.exists() or out.read_text() != text:
        try:
            import common

            with common.lean_lock(shared=False):
                out.write_text(text)
        except ImportError:
            out.write_text(text)
    return data


def main() -> int:
    ap = argparse.ArgumentParser()
    ap.add_argument("--root")
    ap.add_argument("--out")
    a = ap.parse_args()
    data = generate(Path(a.root) if a.root else None, Path(a.out) if a.out else None)
    print(f"{len(data['names'])} modules, {len(data['public'])} public, {len(data['idents'])} names")
    return 0


if __name__ == "__main__":
    sys.exit(main())
