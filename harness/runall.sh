#!/bin/bash
# runs every registered check (tier $1, default quick) on /repo as it is and prints one line per check
tier=${1:-quick}
cd /verif
for p in C01 C02 C03 C04 C05 C06 C07 C08 C09 C10 C11 C12 C13 C14 C15 C16 C17 C18 C19 C20; do
  out=$(/venv/bin/python harness/qcheck.py $p --tier $tier 2>&1)
  rc=$?
  echo "$p rc=$rc $(echo "$out" | tail -1)"
  echo "$out" | grep -E "^VIOLATION" | head -3
done
